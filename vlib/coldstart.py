"""
Run one case of a stage in a *fresh interpreter* (python -m vlib.coldstart): whatever ahbicht sets up lazily, once per
process - module level iterators, first-call initialisation, caches - is in its initial state when the case starts.

Parent side:  coldstart.run("C11", "histories", case) -> info dict, or raises Violation (clause / message of the child).
Child side:   reads {"pid", "stage", "case"} from stdin, executes stage.check(case), prints one JSON line.
The child inherits VERIF_SHARD (process configuration, see vlib/sut.py) and the self-test variables of the parent.
"""

import json
import os
import subprocess
import sys

ROOT = os.path.dirname(os.path.dirname(os.path.abspath(__file__)))


def run(pid, stage_name, case, timeout=600):
    from vlib.core import Violation

    env = dict(os.environ, PYTHONPATH=ROOT + os.pathsep + os.environ.get("PYTHONPATH", ""))
    proc = subprocess.run(
        [sys.executable, "-m", "vlib.coldstart"], input=json.dumps({"pid": pid, "stage": stage_name, "case": case}),
        capture_output=True, text=True, env=env, cwd=ROOT, timeout=timeout, check=False,
    )  # fmt: skip
    lines = [line for line in proc.stdout.splitlines() if line.startswith("COLDSTART ")]
    if proc.returncode != 0 or not lines:
        raise RuntimeError(f"cold-start child failed (exit {proc.returncode}): {proc.stderr[-1500:]}")
    answer = json.loads(lines[-1][len("COLDSTART "):])
    if "clause" in answer:
        raise Violation(answer["clause"], answer["message"] + " [first use in a fresh process]")
    return answer["info"]


def _child():
    import importlib

    request = json.load(sys.stdin)
    from vlib.core import Violation

    prop = importlib.import_module(f"vlib.props.{request['pid'].lower()}")
    from vlib import sut

    sut.trace_logging()
    stage = {s.name: s for s in prop.STAGES}[request["stage"]]
    try:
        info = stage.check(request["case"])
        answer = {"info": info}
    except Violation as violation:
        answer = {"clause": violation.clause, "message": violation.message}
    print("COLDSTART " + json.dumps(answer, default=str))


if __name__ == "__main__":
    _child()
