"""
System under test: import ahbicht from /repo's *current working tree*, and wrap every call so that every
BaseException (InvalidExpressionError derives from BaseException) comes back as a value.

Nothing is copied or built: ahbicht is pure Python, "rebuilding" is importing /repo/src afresh in a new process.
"""

import asyncio
import logging
import os
import sys
import warnings

SRC = "/repo/src"
if os.environ.get("VERIF_SELFTEST") == "1" and os.environ.get("VERIF_SUT_SRC"):
    # only for validating the checks against deliberately broken scratch copies (see DESIGN.md 2.7)
    SRC = os.environ["VERIF_SUT_SRC"]
SRC = os.path.realpath(SRC)
if SRC not in sys.path:
    sys.path.insert(0, SRC)

# The process time zone differs by shard (POSIX TZ strings, no tzdata needed): nothing ahbicht computes may depend on it
TIME_ZONES = ["UTC0", "CET-1CEST,M3.5.0,M10.5.0/3", "PST8PDT,M3.2.0,M11.1.0", "IST-5:30", "NZST-12NZDT,M9.5.0,M4.1.0/3"]
os.environ["TZ"] = TIME_ZONES[int(os.environ.get("VERIF_SHARD", "0") or 0) % len(TIME_ZONES)]
import time as _time  # noqa: E402

_time.tzset()

warnings.simplefilter("ignore")
if int(os.environ.get("VERIF_SHARD", "0") or 0) % 4 == 3:
    # every fourth shard runs with logging switched on at DEBUG level (a legal configuration of the host application):
    # all log records
    # are created and rendered by a handler that - like pytest's caplog handler - does not swallow errors, and the
    # package's loggers are opened for its own trace level below DEBUG (see trace_logging)
    class _RenderingHandler(logging.Handler):
        def emit(self, record):
            self.format(record)  # msg % args; the text is thrown away

        def handleError(self, record):
            raise  # pylint:disable=misplaced-bare-raise

    logging.getLogger().addHandler(_RenderingHandler())
    logging.getLogger().setLevel(1)
else:
    logging.disable(logging.CRITICAL)  # the parsers put a traceback into a log record for every rejected string

# the package has an import cycle that only resolves in this order
import ahbicht.content_evaluation  # noqa: E402  pylint:disable=wrong-import-position
import ahbicht  # noqa: E402

if not os.path.realpath(ahbicht.__file__).startswith(SRC + os.sep):
    sys.stderr.write(f"HARNESS-ERROR: ahbicht was imported from {ahbicht.__file__}, not from {SRC}\n")
    sys.exit(2)

import inject  # noqa: E402
from vlib import hostapp  # noqa: E402,F401  pylint:disable=unused-import  (namesakes of ahbicht's schema classes)
from efoli import EdifactFormat, EdifactFormatVersion  # noqa: E402

from ahbicht.content_evaluation.evaluationdatatypes import EvaluatableData, EvaluatableDataProvider  # noqa: E402
from ahbicht.content_evaluation.evaluator_factory import (  # noqa: E402
    create_content_evaluation_result_based_evaluators,
    create_hardcoded_evaluators,
)
from ahbicht.content_evaluation.token_logic_provider import SingletonTokenLogicProvider, TokenLogicProvider  # noqa: E402
from ahbicht.expressions import InvalidExpressionError  # noqa: E402
from ahbicht.models.condition_nodes import ConditionFulfilledValue as CFV  # noqa: E402
from ahbicht.models.condition_nodes import EvaluatedFormatConstraint  # noqa: E402
from ahbicht.models.content_evaluation_result import ContentEvaluationResult, ContentEvaluationResultSchema  # noqa: E402

FMT, VER = EdifactFormat.UTILMD, EdifactFormatVersion.FV2210

if int(os.environ.get("VERIF_SHARD", "0") or 0) % 4 == 2:
    # every fourth shard runs like an application (or test runner) that turns warnings into errors, for the warnings
    # attributed to ahbicht's own modules: "python -W error::DeprecationWarning:ahbicht..." is a legal way to run a
    # library, and a warning raised there must not change which strings are accepted or what an evaluation returns.
    # (compile time SyntaxWarnings stay ignored: the unchanged tree has an invalid escape sequence in a docstring)
    warnings.filterwarnings("error", module=r"ahbicht(\.|$)")
    warnings.filterwarnings("ignore", category=SyntaxWarning)


class HarnessAbort(BaseException):
    """raised by the runner to leave Hypothesis; never swallowed by `call`"""


class Returned:
    """the call returned"""

    ok = True

    def __init__(self, value):
        self.value = value

    def __repr__(self):
        return f"Returned({self.value!r})"


class Raised:
    """the call raised"""

    ok = False

    def __init__(self, exc: BaseException):
        self.exc = exc
        self.type = type(exc).__name__

    def __repr__(self):
        return f"Raised({self.type}: {str(self.exc)[:200]})"

    def is_a(self, *types) -> bool:
        return isinstance(self.exc, types)


_LOOP = None


def loop() -> asyncio.AbstractEventLoop:
    global _LOOP  # pylint:disable=global-statement
    if _LOOP is None or _LOOP.is_closed():
        _LOOP = asyncio.new_event_loop()
    return _LOOP


FRESH_LOOPS = (int(os.environ.get("VERIF_SHARD", "0") or 0) // 4) % 2 == 1
"""
Shards 4-7 and 12-15 run every call on an event loop of its own (like an application that calls asyncio.run per request,
or a test runner with one loop per test); the others keep one loop per process.  Objects that outlive a call - the
injected evaluators, module level state - thus meet several loops.
"""


def run_fresh(coro):
    """run a coroutine to completion on a new event loop, which is closed afterwards"""
    global _LOOP  # pylint:disable=global-statement
    previous, _LOOP = _LOOP, asyncio.new_event_loop()
    try:
        return _run_on(_LOOP, coro)
    finally:
        _LOOP.close()
        _LOOP = previous


def run(coro):
    """
    Run a coroutine to completion on the process-wide loop (each run gets a copy of the current context) - or, in the
    shards with FRESH_LOOPS, on a new loop.
    When one awaitable of an asyncio.gather raises (e.g. the documented NotImplementedError of the validation), its
    siblings keep running as orphaned tasks; they are cancelled and drained here so that no task outlives a case.
    """
    if FRESH_LOOPS:
        return run_fresh(coro)
    return _run_on(loop(), coro)


def _run_on(event_loop, coro):
    try:
        return event_loop.run_until_complete(coro)
    finally:
        pending = [task for task in asyncio.all_tasks(event_loop) if not task.done()]
        for task in pending:
            task.cancel()
        if pending:
            event_loop.run_until_complete(asyncio.gather(*pending, return_exceptions=True))


def call(func, *args, **kwargs):
    """Call func (sync or async); returns Returned(value) or Raised(exception) for *every* BaseException."""
    try:
        result = func(*args, **kwargs)
        if asyncio.iscoroutine(result):
            result = run(result)
        return Returned(result)
    except (KeyboardInterrupt, HarnessAbort):
        raise
    except BaseException as exc:  # pylint:disable=broad-except
        return Raised(exc)


async def acall(awaitable):
    """like call, for use inside a coroutine"""
    try:
        return Returned(await awaitable)
    except (KeyboardInterrupt, HarnessAbort):
        raise
    except BaseException as exc:  # pylint:disable=broad-except
        return Raised(exc)


def evaluatable_data(body=None):
    return EvaluatableData(body=body if body is not None else {}, edifact_format=FMT, edifact_format_version=VER)


def configure(providers, data_provider=None, bystanders=True):
    """
    bind the given evaluators/providers/resolvers (list) and an EvaluatableData provider; bystanders=False registers
    exactly the given objects (see _formatless_bystanders)
    """
    if data_provider is None:
        data_provider = evaluatable_data

    registered = list(providers) + (_formatless_bystanders(providers) if bystanders else [])

    def _configure(binder):
        binder.bind(TokenLogicProvider, SingletonTokenLogicProvider(registered))
        binder.bind_to_provider(EvaluatableDataProvider, data_provider)

    inject.clear_and_configure(_configure)


def _formatless_bystanders(providers):
    """
    One more evaluator / provider / resolver of each kind that names no EDIFACT format and no format version (the base
    classes allow that; the registry files such an instance under a key of its own).  The evaluatable data of every
    check carry a format and a version, so these bystanders must never be asked: they know no condition, answer every
    hint with a foreign text and every package with a foreign expression.
    """
    def names_a_format(instance):
        return not isinstance(instance.edifact_format, NotImplementedError) and not isinstance(
            instance.edifact_format_version, NotImplementedError
        )

    if _BYSTANDERS:
        return [instance for kind, instance in _BYSTANDERS if all(names_a_format(p) for p in providers if isinstance(p, kind))]
    from ahbicht.content_evaluation.evaluationdatatypes import EvaluationContext
    from ahbicht.content_evaluation.fc_evaluators import FcEvaluator
    from ahbicht.content_evaluation.rc_evaluators import RcEvaluator
    from ahbicht.expressions.hints_provider import HintsProvider
    from ahbicht.expressions.package_expansion import PackageResolver
    from ahbicht.models.mapping_results import PackageKeyConditionExpressionMapping

    class BystanderRc(RcEvaluator):
        def _get_default_context(self):
            return EvaluationContext(scope=None)

    class BystanderFc(FcEvaluator):
        pass

    class BystanderHints(HintsProvider):
        async def get_hint_text(self, condition_key):
            return f"text of a bystander for {condition_key}"

    class BystanderPackages(PackageResolver):
        async def get_condition_expression(self, package_key):
            return PackageKeyConditionExpressionMapping(edifact_format=FMT, package_key=package_key, package_expression="[498]")

    if not _BYSTANDERS:
        # stateless: built once per process
        _BYSTANDERS.extend([(RcEvaluator, BystanderRc()), (FcEvaluator, BystanderFc()), (HintsProvider, BystanderHints()),
                            (PackageResolver, BystanderPackages())])  # fmt: skip
    return [instance for kind, instance in _BYSTANDERS if all(names_a_format(p) for p in providers if isinstance(p, kind))]


_BYSTANDERS = []


def configure_single_set(providers, data_provider=None):
    """
    A user-defined TokenLogicProvider that holds exactly one evaluator / provider / resolver of each kind and hands it
    out whatever format is asked for (the base class documents that for the case that only one is available); the
    four objects need not have any format set (create_hardcoded_evaluators(cer) without format arguments builds such).
    """
    by_kind = {}
    from ahbicht.content_evaluation.fc_evaluators import FcEvaluator
    from ahbicht.content_evaluation.rc_evaluators import RcEvaluator
    from ahbicht.expressions.hints_provider import HintsProvider
    from ahbicht.expressions.package_expansion import PackageResolver

    for provider in providers:
        for kind in (RcEvaluator, FcEvaluator, HintsProvider, PackageResolver):
            if isinstance(provider, kind):
                by_kind[kind] = provider

    class SingleSet(TokenLogicProvider):
        def get_rc_evaluator(self, edifact_format=None, format_version=None):
            return by_kind[RcEvaluator]

        def get_fc_evaluator(self, edifact_format=None, format_version=None):
            return by_kind[FcEvaluator]

        def get_hints_provider(self, edifact_format=None, format_version=None):
            return by_kind[HintsProvider]

        def get_package_resolver(self, edifact_format=None, format_version=None):
            return by_kind[PackageResolver]

    if data_provider is None:
        data_provider = evaluatable_data

    def _configure(binder):
        binder.bind(TokenLogicProvider, SingleSet())
        binder.bind_to_provider(EvaluatableDataProvider, data_provider)

    inject.clear_and_configure(_configure)


def setup_hardcoded(cer: ContentEvaluationResult, formatless=False):
    if formatless:
        configure_single_set(create_hardcoded_evaluators(cer))
        return
    _setup_hardcoded(cer)


def _setup_hardcoded(cer: ContentEvaluationResult):
    """dict based evaluators, as created by ahbicht's own factory"""
    configure(create_hardcoded_evaluators(cer, FMT, VER))


def setup_cer_based(context_var):
    """ContentEvaluationResult based evaluators that read the CER from the given ContextVar"""
    schema = ContentEvaluationResultSchema()
    configure(
        create_content_evaluation_result_based_evaluators(FMT, VER),
        lambda: evaluatable_data(schema.dump(context_var.get())),
    )


_M = {"F": CFV.FULFILLED, "U": CFV.UNFULFILLED, "K": CFV.UNKNOWN, "N": CFV.NEUTRAL}
_MI = {v: k for k, v in _M.items()}


def cfv(letter: str) -> CFV:
    return _M[letter]


def letter(value: CFV) -> str:
    return _MI[value]


def make_cer(rc=None, fc=None, hints=None, packages=None, extras=False) -> ContentEvaluationResult:
    """
    rc: key -> 'F'/'U'/'K';  fc: key -> True | False | [False, message];  hints: key -> text|None
    A fulfilled constraint never carries a message; an unfulfilled one carries "E<key>" unless given.
    """
    fcs = {}
    for key, val in (fc or {}).items():
        if isinstance(val, (list, tuple)):
            fcs[key] = EvaluatedFormatConstraint(bool(val[0]), val[1])
        elif val:
            fcs[key] = EvaluatedFormatConstraint(True, None)
        else:
            fcs[key] = EvaluatedFormatConstraint(False, f"E{key}")
    hints = dict(hints or {})
    rcs = {k: _M[v] for k, v in (rc or {}).items()}
    packages = dict(packages) if packages is not None else {}
    if extras:
        # a content evaluation result usually covers a whole message: entries for keys that the expression at hand does
        # not mention, among them a hint without a text (Dict[str, Optional[str]]) - none of them may matter
        hints.setdefault("899", None)
        hints.setdefault("898", "wird hier nicht gebraucht")
        rcs.setdefault("498", CFV.UNKNOWN)
        fcs.setdefault("997", EvaluatedFormatConstraint(False, "E997 (unused)"))
        packages.setdefault("99P", "[498] U [997]")
    return ContentEvaluationResult(hints=hints, format_constraints=fcs, requirement_constraints=rcs, packages=packages)


def clear_parse_caches():
    """the lru_cache behind the two parsers is reachable through the tree_copy closure"""
    from ahbicht.expressions import ahb_expression_parser, condition_expression_parser

    for func in (
        condition_expression_parser.parse_condition_expression_to_tree,
        ahb_expression_parser.parse_ahb_expression_to_single_requirement_indicator_expressions,
    ):
        cached = _cached_of(func)
        if cached is not None:
            cached.cache_clear()


def _cached_of(func):
    for cell in getattr(func, "__closure__", None) or ():
        try:
            obj = cell.cell_contents
        except ValueError:
            continue
        if hasattr(obj, "cache_clear"):
            return obj
    if hasattr(func, "cache_clear"):
        return func
    return None


def cache_info(func):
    cached = _cached_of(func)
    return cached.cache_info() if cached is not None else None


_PREHEATED = []


def preheat_parse_caches():
    """
    Called once per worker process by checks whose subject is parsing: every second shard (odd VERIF_SHARD) first
    fills both 1024-entry parse caches with 1100 other well-formed strings, so that everything parsed afterwards is a
    cache miss with eviction - the situation of a long-running process; the other shards start cold.
    Returns a Raised result if filling the caches itself fails, else None.
    """
    if _PREHEATED:
        return None
    _PREHEATED.append(True)
    if int(os.environ.get("VERIF_SHARD", "0")) % 2 == 0:
        return None
    from ahbicht.expressions.ahb_expression_parser import parse_ahb_expression_to_single_requirement_indicator_expressions
    from ahbicht.expressions.condition_expression_parser import parse_condition_expression_to_tree

    for number in range(1100):
        for func, text in (
            (parse_condition_expression_to_tree, f"[{3000 + number}] U [{number % 7 + 1}]"),
            (parse_ahb_expression_to_single_requirement_indicator_expressions, f"Muss[{3000 + number}]"),
        ):
            res = call(func, text)
            if not res.ok:
                return res
    return None


def trace_logging():
    """
    In the logging shards: open every logger of the package for all levels (ahbicht logs cache hits at its own level 5
    and pins its loggers to DEBUG at import time, so this has to be repeated after late imports).  A no-op elsewhere.
    """
    if int(os.environ.get("VERIF_SHARD", "0") or 0) % 4 != 3:
        return
    for name, logger in list(logging.root.manager.loggerDict.items()):
        if name.startswith("ahbicht") and isinstance(logger, logging.Logger):
            logger.setLevel(1)


trace_logging()
