"""
Thin helpers around ahbicht's evaluation entry points (all calls go through sut.call).
"""

from contextvars import ContextVar

from vlib import ref, sut


def api():
    from ahbicht.expressions.ahb_expression_evaluation import evaluate_ahb_expression_tree
    from ahbicht.expressions.condition_expression_parser import parse_condition_expression_to_tree
    from ahbicht.expressions.expression_resolver import parse_expression_including_unresolved_subexpressions
    from ahbicht.expressions.format_constraint_expression_evaluation import (
        evaluate_format_constraint_tree,
        format_constraint_evaluation,
    )
    from ahbicht.expressions.requirement_constraint_expression_evaluation import (
        evaluate_requirement_constraint_tree,
        requirement_constraint_evaluation,
    )

    class Api:  # pylint:disable=too-few-public-methods
        pass

    out = Api()
    out.parse_cond = parse_condition_expression_to_tree
    out.resolve = parse_expression_including_unresolved_subexpressions
    out.evaluate_ahb_expression_tree = evaluate_ahb_expression_tree
    out.evaluate_format_constraint_tree = evaluate_format_constraint_tree
    out.format_constraint_evaluation = format_constraint_evaluation
    out.evaluate_requirement_constraint_tree = evaluate_requirement_constraint_tree
    out.requirement_constraint_evaluation = requirement_constraint_evaluation
    return out


def input_nodes(ast, assignment):
    """condition nodes for evaluate_requirement_constraint_tree"""
    from ahbicht.models.condition_nodes import Hint, RequirementConstraint, UnevaluatedFormatConstraint

    nodes = {}
    for atom in ref.atoms_of(ast):
        kind, key = atom[0], atom[1]
        if kind == "rc":
            nodes[key] = RequirementConstraint(condition_key=key, conditions_fulfilled=sut.cfv(assignment[key]))
        elif kind == "hint":
            nodes[key] = Hint(condition_key=key, hint=f"Hinweis {key}")
        elif kind == "fc":
            nodes[key] = UnevaluatedFormatConstraint(condition_key=key)
    return nodes


_CER = ContextVar("evalhelp_cer", default=None)
_RECASE = {"F": ["FULFILLED", "Fulfilled", "fulfilled"], "U": ["UNFULFILLED", "Unfulfilled", "unfulfilled"],
           "K": ["UNKNOWN", "Unknown", "unknown"]}  # fmt: skip


def setup_for(ast_or_asts, assignment, truth=None, packages=None, hint_texts=None, style="hardcoded"):
    """
    inject evaluators for the keys of the given AST(s).  style:
      "hardcoded"   dict based evaluators (ahbicht's own factory),
      "cer"         the shipped ContentEvaluationResult based evaluators; the result is dumped into the evaluatable data,
      "cer-recased" the same, but the requirement states in the dumped document are spelled 'Fulfilled' / 'fulfilled' ...
                    (the schema documents that it reads them case-insensitively, e.g. from a non-Python backend)
    """
    asts = ast_or_asts if (ast_or_asts and isinstance(ast_or_asts[0], list)) else [ast_or_asts]
    hints, fcs = {}, {}
    for ast in asts:
        for atom in ref.atoms_of(ast):
            if atom[0] == "hint":
                hints[atom[1]] = (hint_texts or {}).get(atom[1], f"Hinweis {atom[1]}")
            elif atom[0] == "fc":
                fcs[atom[1]] = True if truth is None else truth[atom[1]]
    cer = sut.make_cer(rc=assignment, fc=fcs, hints=hints, packages=packages or {}, extras=style != "hardcoded")
    if style == "hardcoded":
        sut.setup_hardcoded(cer)
        return
    _CER.set(cer)
    schema = sut.ContentEvaluationResultSchema()

    def data():
        body = schema.dump(_CER.get())
        if style == "cer-recased":
            for index, (key, letter) in enumerate(sorted(assignment.items())):
                body["requirement_constraints"][key] = _RECASE[letter][(index + len(assignment)) % 3]
        return sut.evaluatable_data(body)

    sut.configure(sut.create_content_evaluation_result_based_evaluators(sut.FMT, sut.VER), data)


def outcome_of(result):
    """(fulfilled, is_conditional) of a RequirementConstraintEvaluationResult"""
    return (result.requirement_constraints_fulfilled, result.requirement_is_conditional)


def assignments_for(keys, limit_all=4, sample=None):
    """all 3^k assignments for k <= limit_all, else the given sample (list of dicts)"""
    if len(keys) <= limit_all:
        return list(ref.product_assignments(keys))
    return sample
