"""
Reference models, written from the property statements; none of them calls the code it judges.

AST (JSON-serialisable nested lists):
    ["rc", "12"] ["hint", "501"] ["fc", "901"] ["pkg", "12P", "0..1" | None] ["time", "UB1"]
    [kind, [child, child, ...]]      kind in or / xor / and / then, at least two children
An n-ary node means "grouping inside the run unspecified" (C01).
"""

import itertools
import re

from lark import Token, Tree

PREC = {"or": 0, "xor": 1, "and": 2, "then": 3}
KINDS = ("or", "xor", "and", "then")
NAME = {"or": "or_composition", "xor": "xor_composition", "and": "and_composition", "then": "then_also_composition"}
KIND_OF = {v: k for k, v in NAME.items()}
SPELL = {"or": ["O", "o", "∨"], "xor": ["X", "x", "⊻"], "and": ["U", "u", "∧"], "then": [""]}
ATOMS = ("rc", "hint", "fc", "pkg", "time")
WS_CHARS = " \t\f\r\n"  # exactly Lark's common.WS


def is_atom(node) -> bool:
    return node[0] in ATOMS


def key_category(number: int):
    """independent range function (C18)"""
    if 1 <= number <= 499 or 2000 <= number <= 2499:
        return "rc"
    if 500 <= number <= 900:
        return "hint"
    if 901 <= number <= 999:
        return "fc"
    return None


def atoms_of(node, acc=None):
    acc = [] if acc is None else acc
    if is_atom(node):
        acc.append(node)
    else:
        for child in node[1]:
            atoms_of(child, acc)
    return acc


def keys_of(node, kind):
    """distinct keys of one kind, in order of first appearance"""
    seen = []
    for atom in atoms_of(node):
        if atom[0] == kind and atom[1] not in seen:
            seen.append(atom[1])
    return seen


def count_ops(node) -> int:
    if is_atom(node):
        return 0
    return len(node[1]) - 1 + sum(count_ops(c) for c in node[1])


def depth_of(node) -> int:
    if is_atom(node):
        return 0
    return 1 + max(depth_of(c) for c in node[1])


def canonical(node) -> str:
    """plain rendering: upper-case letters, single blanks, only the needed brackets"""
    if node[0] in ("rc", "hint", "fc", "time"):
        return f"[{node[1]}]"
    if node[0] == "pkg":
        return f"[{node[1]}{node[2] or ''}]"
    kind = node[0]
    parts = []
    for child in node[1]:
        text = canonical(child)
        if not is_atom(child) and PREC[child[0]] <= PREC[kind]:
            text = f"({text})"
        parts.append(text)
    joiner = "" if kind == "then" else f" {SPELL[kind][0]} "
    return joiner.join(parts)


# ----------------------------------------------------------------------------------------------------------------------
# C01: does a Lark tree realise the AST (modulo regrouping inside runs of one operator)?


def dump_tree(tree):
    """complete structural dump of a lark tree incl. token type, text and .value (Token.__eq__ ignores .value)"""
    if isinstance(tree, Tree):
        return [str(tree.data), [dump_tree(child) for child in tree.children]]
    if isinstance(tree, Token):
        return ["token", tree.type, str(tree), tree.value if isinstance(tree.value, str) else repr(tree.value)]
    return ["other", repr(tree)]


def dump_tree_flat(tree):
    """the same information as dump_tree as a flat pre-order list of (depth, ...) rows - no recursion (very deep trees)"""
    rows, stack = [], [(tree, 0)]
    while stack:
        node, depth = stack.pop()
        if isinstance(node, Tree):
            rows.append([depth, "tree", str(node.data), len(node.children)])
            stack.extend((child, depth + 1) for child in reversed(node.children))
        elif isinstance(node, Token):
            rows.append([depth, "token", node.type, str(node), node.value if isinstance(node.value, str) else repr(node.value)])
        else:
            rows.append([depth, "other", repr(node)])
    return rows


def _atom_matches(tree, node) -> bool:
    if not isinstance(tree, Tree):
        return False
    kids = tree.children
    if any(isinstance(kid, Token) and kid.value != str(kid) for kid in kids):
        return False  # a token whose .value differs from its text
    if node[0] in ("rc", "hint", "fc"):
        return (
            tree.data == "condition"
            and len(kids) == 1
            and isinstance(kids[0], Token)
            and kids[0].type == "CONDITION_KEY"
            and str(kids[0]) == node[1]
        )
    if node[0] == "time":
        return (
            tree.data == "time_condition"
            and len(kids) == 1
            and isinstance(kids[0], Token)
            and kids[0].type == "TIME_CONDITION_KEY"
            and str(kids[0]) == node[1]
        )
    if node[0] == "pkg":
        if tree.data != "package" or not all(isinstance(k, Token) for k in kids):
            return False
        expected = [("PACKAGE_KEY", node[1])] + ([("REPEATABILITY", node[2])] if node[2] else [])
        return [(k.type, str(k)) for k in kids] == expected
    return False


def match(tree, node) -> bool:
    """True iff `tree` is the AST `node`, where an n-ary node may be any binary bracketing, in order"""
    if is_atom(node):
        return _atom_matches(tree, node)
    kids = node[1]
    name = NAME[node[0]]
    memo = {}

    def sub(sub_tree, i, j):
        if j - i == 1:
            return match(sub_tree, kids[i])
        key = (id(sub_tree), i, j)
        if key in memo:
            return memo[key]
        result = False
        if isinstance(sub_tree, Tree) and sub_tree.data == name and len(sub_tree.children) == 2:
            left, right = sub_tree.children
            result = any(sub(left, i, k) and sub(right, k, j) for k in range(i + 1, j))
        memo[key] = result
        return result

    return sub(tree, 0, len(kids))


def tree_to_ast(tree, classify_keys=True):
    """
    Lark condition tree -> AST with runs of one operator flattened (the canonical form 'modulo regrouping').
    Returns None for anything that is not a well-shaped condition tree.
    """
    if not isinstance(tree, Tree):
        return None
    kids = tree.children
    if tree.data == "condition":
        if len(kids) != 1 or not isinstance(kids[0], Token) or kids[0].type != "CONDITION_KEY":
            return None
        text = str(kids[0])
        kind = "rc"
        if classify_keys:
            kind = (key_category(int(text)) if text.isascii() and text.isdigit() else None) or "rc"
        return [kind, text]
    if tree.data == "time_condition":
        if len(kids) != 1 or not isinstance(kids[0], Token) or kids[0].type != "TIME_CONDITION_KEY":
            return None
        return ["time", str(kids[0])]
    if tree.data == "package":
        if not kids or not all(isinstance(k, Token) for k in kids) or kids[0].type != "PACKAGE_KEY" or len(kids) > 2:
            return None
        if len(kids) == 2 and kids[1].type != "REPEATABILITY":
            return None
        return ["pkg", str(kids[0]), str(kids[1]) if len(kids) == 2 else None]
    if tree.data in KIND_OF:
        if len(kids) != 2:
            return None
        kind = KIND_OF[tree.data]
        out = []
        for kid in kids:
            sub = tree_to_ast(kid, classify_keys)
            if sub is None:
                return None
            if sub[0] == kind:
                out.extend(sub[1])
            else:
                out.append(sub)
        return [kind, out]
    return None


def flatten(node):
    """AST with nested same-kind children merged into their parent (what tree_to_ast produces)"""
    if is_atom(node):
        return list(node)
    out = []
    for child in node[1]:
        sub = flatten(child)
        if sub[0] == node[0]:
            out.extend(sub[1])
        else:
            out.append(sub)
    return [node[0], out]


def split_by_precedence(atoms, ops):
    """expected AST of a bracket-free chain  atom op atom op ... : split at or, then xor, then and, then juxtaposition"""

    def build(items, gaps, level):
        if len(items) == 1:
            return items[0]
        kind = KINDS[level]
        groups, cur_items, cur_gaps = [], [items[0]], []
        for item, gap in zip(items[1:], gaps):
            if gap == kind:
                groups.append((cur_items, cur_gaps))
                cur_items, cur_gaps = [item], []
            else:
                cur_items.append(item)
                cur_gaps.append(gap)
        groups.append((cur_items, cur_gaps))
        if len(groups) == 1:
            return build(items, gaps, level + 1)
        return [kind, [build(i, g, level + 1) for i, g in groups]]

    return build(list(atoms), list(ops), 0)


# ----------------------------------------------------------------------------------------------------------------------
# C02: reference recogniser for condition expressions, written from the statement

_TOKEN = re.compile(
    r"(?P<ws>[ \t\f\r\n]+)|(?P<lb>\[)|(?P<rb>\])|(?P<lp>\()|(?P<rp>\))"
    r"|(?P<rep>[0-9]+\.\.[1-9][0-9]*)|(?P<pkg>[0-9]+P)|(?P<ub>UB[123])|(?P<int>[0-9]+)|(?P<op>[UOXuox∧∨⊻])"
)
# the same, but a repeatability may be written with any Unicode decimal digits (the grammar says \d there)
_TOKEN_UNICODE_REP = re.compile(
    r"(?P<ws>[ \t\f\r\n]+)|(?P<lb>\[)|(?P<rb>\])|(?P<lp>\()|(?P<rp>\))"
    r"|(?P<rep>\d+\.\.[1-9]\d*)|(?P<pkg>[0-9]+P)|(?P<ub>UB[123])|(?P<int>[0-9]+)|(?P<op>[UOXuox∧∨⊻])"
)


def tokenize(text, unicode_rep=False):
    pattern = _TOKEN_UNICODE_REP if unicode_rep else _TOKEN
    out, pos = [], 0
    while pos < len(text):
        found = pattern.match(text, pos)
        if not found:
            return None
        if found.lastgroup != "ws":
            out.append((found.lastgroup, found.group()))
        pos = found.end()
    return out


def unspecified_zone(text) -> bool:
    """
    AHB expressions only: the two non-ASCII letters that Python's re.IGNORECASE folds onto the ASCII letters of the
    modal marks (U+017F LONG S -> s, U+212A KELVIN SIGN -> k).  The statement says "in any letter case" and nothing
    about them; only the 'no foreign exception' clause is checked for strings containing them.
    """
    return any(c in "\u017f\u212a" for c in text)


def condition_zone(text) -> bool:
    """
    Condition expressions: keys and package keys are ASCII integers (the grammar's INT, "[INT]" in the documented
    error message), but the repeatability terminal is written with \\d, which admits every Unicode decimal digit.
    A string that is well-formed only if such digits are allowed inside a repeatability is the one unspecified zone.
    """
    return (not accepts_condition(text)) and accepts_condition(text, unicode_rep=True)


def accepts_condition(text, unicode_rep=False) -> bool:
    """expr := term (op? term)* ; term := "(" expr ")" | "[" INT "]" | "[" INT"P" REP? "]" | "[" UBn "]" """
    toks = tokenize(text, unicode_rep)
    if toks is None:
        return False
    pos = [0]

    def peek():
        return toks[pos[0]][0] if pos[0] < len(toks) else None

    def eat(kind):
        if peek() == kind:
            pos[0] += 1
            return True
        return False

    def term():
        if eat("lp"):
            return expr() and eat("rp")
        if eat("lb"):
            if eat("int"):
                return eat("rb")
            if eat("pkg"):
                eat("rep")
                return eat("rb")
            if eat("ub"):
                return eat("rb")
        return False

    def expr():
        if not term():
            return False
        while True:
            if peek() == "op":
                pos[0] += 1
                if not term():
                    return False
            elif peek() in ("lp", "lb"):
                if not term():
                    return False
            else:
                return True

    return expr() and pos[0] == len(toks)


_MODAL = re.compile(r"(?:muss|soll|kann|m|s|k)", re.I | re.A)
_PREFIX = re.compile(r"[xou]", re.I | re.A)
_COND_CHARS = set("[]()UuOoXx∧∨⊻0123456789Pp.Bb" + WS_CHARS)


def split_ahb_lenient(text, limit=64, any_space=False):
    """
    Lenient reading of an AHB expression: all ways (up to `limit`) of cutting the text into
    (indicator, condition_text | None) parts.  Indicators are the six modal-mark spellings and X/O/U in any ASCII
    letter case; a condition text is any non-empty run of condition-expression characters following an indicator.
    any_space=True additionally admits every Unicode whitespace character and decimal digit inside condition texts (the AHB parser on
    its own only checks that a condition part *looks like* a condition expression; the resolver checks it properly).
    """
    results = []

    def parts_from(pos, acc):
        if len(results) >= limit:
            return
        if pos == len(text):
            if acc:
                results.append(list(acc))
            return
        candidates = []
        for pattern in (_MODAL, _PREFIX):
            for length in (4, 1):
                piece = text[pos : pos + length]
                if len(piece) == length and pattern.fullmatch(piece) and piece not in candidates:
                    candidates.append(piece)
        for piece in candidates:
            end = pos + len(piece)
            stop = end
            while stop < len(text) and (text[stop] in _COND_CHARS or (any_space and (text[stop].isspace() or text[stop].isdecimal()))):
                stop += 1
            # longest condition text first (the real terminal is greedy), then every shorter cut
            for cut in range(stop, end - 1, -1):
                cond = text[end:cut]
                acc.append((piece, cond if cond else None))
                parts_from(cut, acc)
                acc.pop()

    parts_from(0, [])
    return results


def accepts_ahb_lenient(text, unicode_rep=False) -> bool:
    """
    Superset of every AHB expression the statement allows: some cut into indicator parts exists in which every
    non-blank condition text is accepted by R_cond, a prefix operator with a condition stands alone, and a bare
    indicator (no or only blank condition text) comes last.
    """
    for parts in split_ahb_lenient(text, any_space=unicode_rep):
        ok = True
        for index, (indicator, cond) in enumerate(parts):
            blank = cond is None or not cond.strip(WS_CHARS)
            if blank:
                if index != len(parts) - 1:
                    ok = False
                    break
                continue
            if _PREFIX.fullmatch(indicator) and len(parts) > 1:
                ok = False
                break
            if not accepts_condition(cond, unicode_rep):
                ok = False
                break
        if ok:
            return True
    return False


# ----------------------------------------------------------------------------------------------------------------------
# C03/C04: four-valued logic, written independently (Kleene + NEUTRAL as identity).  Letters F U K N.


def AND(a, b):
    if a == "N":
        return b
    if b == "N":
        return a
    if "U" in (a, b):
        return "U"
    if "K" in (a, b):
        return "K"
    return "F"


def OR(a, b):
    if a == "N":
        return b
    if b == "N":
        return a
    if "F" in (a, b):
        return "F"
    if "K" in (a, b):
        return "K"
    return "U"


def XOR(a, b):
    if a == "N":
        return b
    if b == "N":
        return a
    if "K" in (a, b):
        return "K"
    return "F" if (a == "F") != (b == "F") else "U"


TABLE = {"and": AND, "or": OR, "xor": XOR}
OUTCOME = {"F": (True, True), "N": (True, False), "U": (False, True), "K": (None, None)}


def has_rc(node) -> bool:
    return any(a[0] == "rc" for a in atoms_of(node))


def only_fc(node) -> bool:
    """a format constraint key, or a U/O/X composition of nothing but format constraint keys"""
    if is_atom(node):
        return node[0] == "fc"
    return node[0] in ("and", "or", "xor") and all(only_fc(child) for child in node[1])


def then_parts(node):
    """
    for a binary `then` node: (format constraint part, partner).  The format constraint part is one fc key - or, on
    the right-hand side only (C05 / C07; the stated domain of C04 and C06 is the single key), a bracketed composition
    of format constraint keys, as a package of format constraints yields it: [1]([950] O [951])
    """
    left, right = node[1]
    if left[0] == "fc" and right[0] != "fc":
        return left, right
    if right[0] == "fc":
        return right, left
    if only_fc(right) and not only_fc(left):
        return right, left
    raise ValueError(f"not a format-constraint attachment: {node}")


def state(node, assignment):
    """requirement state of an expression of the evaluation domain (rc / hint / fc keys)"""
    if node[0] == "rc":
        return assignment[node[1]]
    if node[0] in ("hint", "fc"):
        return "N"
    if node[0] == "then":
        return state(then_parts(node)[1], assignment)
    values = [state(child, assignment) for child in node[1]]
    result = values[0]
    for value in values[1:]:
        result = TABLE[node[0]](result, value)
    return result


def validity(node):
    """
    C06 structural criterion.  Returns "valid", "invalid" or "ambiguous" (an n-ary all-neutral O/X run that contains
    both a bare hint and a bare format constraint: whether they meet directly depends on the unspecified grouping).
    """
    if is_atom(node):
        return "valid"
    verdicts = [validity(child) for child in node[1]]
    if "invalid" in verdicts:
        return "invalid"
    verdict = "ambiguous" if "ambiguous" in verdicts else "valid"
    if node[0] in ("or", "xor"):
        flags = [has_rc(child) for child in node[1]]
        if any(flags) and not all(flags):
            return "invalid"
        if not any(flags):
            bare = {child[0] for child in node[1] if child[0] in ("hint", "fc")}
            if bare == {"hint", "fc"}:
                if len(node[1]) == 2:
                    return "invalid"
                verdict = "ambiguous"
    return verdict


def in_evaluation_domain(node) -> bool:
    """juxtaposition attaches one fc key to a bare hint or to an operand containing an rc; keys rc/hint/fc only"""
    if is_atom(node):
        return node[0] in ("rc", "hint", "fc")
    if node[0] == "then":
        if len(node[1]) != 2:
            return False
        left, right = node[1]
        if (left[0] == "fc") == (right[0] == "fc"):
            return False
        partner = then_parts(node)[1]
        if not (partner[0] == "hint" or has_rc(partner)):
            return False
    return all(in_evaluation_domain(child) for child in node[1])


# ----------------------------------------------------------------------------------------------------------------------
# C07: direct reading of the format constraints of a source expression;  C08: Boolean evaluation

BOOL = {"and": lambda a, b: a and b, "or": lambda a, b: a or b, "xor": lambda a, b: a != b}


def fc_direct(node, assignment, truth):
    """value of the format constraints of `node`: True/False, or None if it contributes nothing"""
    if node[0] in ("rc", "hint"):
        return None
    if node[0] == "fc":
        return truth[node[1]]
    if node[0] == "then":
        fc_part, partner = then_parts(node)
        inner = fc_direct(partner, assignment, truth)
        if partner[0] == "hint" or state(partner, assignment) == "F":
            attached = bool_eval(fc_part, truth)
            return attached if inner is None else (attached and inner)
        return inner
    result = None
    for child in node[1]:
        value = fc_direct(child, assignment, truth)
        if value is None:
            continue
        result = value if result is None else BOOL[node[0]](result, value)
    return result


def fc_binding_info(node, assignment):
    """(number of attached constraints, number of them that are not binding) - for the non-trivial rule of C07"""
    if is_atom(node):
        return 0, 0
    total, loose = 0, 0
    if node[0] == "then":
        _, partner = then_parts(node)
        total += 1
        if not (partner[0] == "hint" or state(partner, assignment) == "F"):
            loose += 1
    for child in node[1]:
        sub_total, sub_loose = fc_binding_info(child, assignment)
        total += sub_total
        loose += sub_loose
    return total, loose


def bool_eval(node, truth):
    """Boolean value of an expression over fc keys with and/or/xor"""
    if node[0] == "fc":
        return truth[node[1]]
    values = [bool_eval(child, truth) for child in node[1]]
    result = values[0]
    for value in values[1:]:
        result = BOOL[node[0]](result, value)
    return result


# ----------------------------------------------------------------------------------------------------------------------
# C09: AHB expressions.  parts = [[indicator_text, ast | None], ...]

MODAL = {"M": "MUSS", "MUSS": "MUSS", "S": "SOLL", "SOLL": "SOLL", "K": "KANN", "KANN": "KANN"}


def normalise_indicator(text):
    upper = text.upper()
    if upper in MODAL:
        return MODAL[upper]
    if upper in ("X", "O", "U"):
        return upper
    raise ValueError(text)


def part_fulfilled(ast, assignment):
    """True / False / None for one part (a bare indicator counts as fulfilled)"""
    if ast is None:
        return True
    return OUTCOME[state(ast, assignment)][0]


def select_part(parts, assignment) -> int:
    """index of the first part whose requirement constraints are fulfilled, else the last one"""
    for index, (_, ast) in enumerate(parts):
        if part_fulfilled(ast, assignment) is True:
            return index
    return len(parts) - 1


# ----------------------------------------------------------------------------------------------------------------------
# C10: textual substitution

UB_TEXT = {"UB1": "[932]", "UB2": "[934]", "UB3": "([932][492]X[934][493])"}
_UB_RE = re.compile(r"\[[ \t\f\r\n]*(UB[123])[ \t\f\r\n]*\]")
_PKG_RE = re.compile(r"\[[ \t\f\r\n]*([0-9]+P)[ \t\f\r\n]*([0-9]+\.\.[1-9][0-9]*)?[ \t\f\r\n]*\]")


def subst_time(text):
    return _UB_RE.sub(lambda m: UB_TEXT[m.group(1)], text)


def subst_packages(text, table, time_too=True):
    """one level of packages, bracketed; raises KeyError for a package that maps to nothing"""

    def repl(found):
        body = table[found.group(1)]
        if body is None:
            raise KeyError(found.group(1))
        return "(" + (subst_time(body) if time_too else body) + ")"

    return _PKG_RE.sub(repl, text)


# ----------------------------------------------------------------------------------------------------------------------
# C20: the EU summer-time rule in integer arithmetic (no pytz / zoneinfo)


def civil_from_days(z):
    z += 719468
    era = (z if z >= 0 else z - 146096) // 146097
    doe = z - era * 146097
    yoe = (doe - doe // 1460 + doe // 36524 - doe // 146096) // 365
    y = yoe + era * 400
    doy = doe - (365 * yoe + yoe // 4 - yoe // 100)
    mp = (5 * doy + 2) // 153
    d = doy - (153 * mp + 2) // 5 + 1
    m = mp + 3 if mp < 10 else mp - 9
    return (y + (m <= 2), m, d)


def days_from_civil(y, m, d):
    y -= m <= 2
    era = (y if y >= 0 else y - 399) // 400
    yoe = y - era * 400
    doy = (153 * (m + (-3 if m > 2 else 9)) + 2) // 5 + d - 1
    doe = yoe * 365 + yoe // 4 - yoe // 100 + doy
    return era * 146097 + doe - 719468


def last_sunday(year, month):
    day = days_from_civil(year, month, 31)  # March and October have 31 days
    weekday = (day + 4) % 7  # 0 = Sunday (1970-01-01 was a Thursday)
    return day - weekday


def dst_switches(year):
    """(start, end) of summer time in epoch seconds: 01:00 UTC on the last Sundays of March and October"""
    return last_sunday(year, 3) * 86400 + 3600, last_sunday(year, 10) * 86400 + 3600


def berlin_offset(ts):
    """EU rule as in force since 1996"""
    year = civil_from_days(ts // 86400)[0]
    start, end = dst_switches(year)
    return 7200 if start <= ts < end else 3600


def german_local_seconds(ts):
    return (ts + berlin_offset(ts)) % 86400


def format_instant(ts, offset_s, style):
    """
    Write epoch second `ts` with UTC offset `offset_s` (seconds).  style is a dict:
      sep: "T" | " ", frac: "" | ".000" | ".000000", off: "colon" | "z" | "colon_s" | "basic" | "hour",
      date: "ext" | "basic" | "week"
    """
    local = ts + offset_s
    days, secs = divmod(local, 86400)
    year, month, day = civil_from_days(days)
    hh, mm, ss = secs // 3600, secs % 3600 // 60, secs % 60
    sign = "+" if offset_s >= 0 else "-"
    absolute = abs(offset_s)
    oh, om, osec = absolute // 3600, absolute % 3600 // 60, absolute % 60
    date_style = style.get("date", "ext")
    if date_style == "ext":
        date = f"{year:04d}-{month:02d}-{day:02d}"
        clock = f"{hh:02d}:{mm:02d}:{ss:02d}"
    elif date_style == "basic":
        date = f"{year:04d}{month:02d}{day:02d}"
        clock = f"{hh:02d}{mm:02d}{ss:02d}"
    else:  # ISO week date
        iso_year, iso_week, iso_day = iso_week_date(days)
        date = f"{iso_year:04d}-W{iso_week:02d}-{iso_day}"
        clock = f"{hh:02d}:{mm:02d}:{ss:02d}"
    off_style = style.get("off", "colon")
    if off_style == "z" and offset_s == 0:
        off = "Z"
    elif off_style == "colon_s":
        off = f"{sign}{oh:02d}:{om:02d}:{osec:02d}"
    elif off_style == "basic" and osec == 0:
        off = f"{sign}{oh:02d}{om:02d}"
    elif off_style == "hour" and om == 0 and osec == 0:
        off = f"{sign}{oh:02d}"
    elif osec:
        off = f"{sign}{oh:02d}:{om:02d}:{osec:02d}"
    else:
        off = f"{sign}{oh:02d}:{om:02d}"
    return f"{date}{style.get('sep', 'T')}{clock}{style.get('frac', '')}{off}"


def iso_week_date(days):
    """(iso year, iso week, iso weekday 1..7) for a day number since 1970-01-01, integer arithmetic only"""
    weekday = (days + 3) % 7 + 1  # 1970-01-01 was a Thursday (=4)
    thursday = days - weekday + 4  # the Thursday of this ISO week decides the ISO year
    iso_year = civil_from_days(thursday)[0]
    jan1 = days_from_civil(iso_year, 1, 1)
    week = (thursday - jan1) // 7 + 1
    return iso_year, week, weekday


def product_assignments(keys, values="FUK"):
    for combo in itertools.product(values, repeat=len(keys)):
        yield dict(zip(keys, combo))


# ----------------------------------------------------------------------------------------------------------------------
# AST surgery (used by generators of transformed / faulted expressions)


def sites(node, path=()):
    """all (path, node) pairs; a path is a tuple of child indexes"""
    yield path, node
    if not is_atom(node):
        for index, child in enumerate(node[1]):
            yield from sites(child, path + (index,))


def node_at(root, path):
    node = root
    for index in path:
        node = node[1][index]
    return node


def replace_at(node, path, func):
    if not path:
        return func(node)
    children = list(node[1])
    children[path[0]] = replace_at(children[path[0]], path[1:], func)
    return [node[0], children]


# ----------------------------------------------------------------------------------------------------------------------
# small-scope enumeration: every expression of the evaluation domain up to a number of atoms over a tiny key set

SMALL_ATOMS = (["rc", "1"], ["rc", "2"], ["hint", "501"], ["fc", "901"], ["fc", "902"])


def enumerate_small_dom(max_atoms, atoms=SMALL_ATOMS):
    """
    All binary-tree expressions with 1..max_atoms leaves over `atoms` and the four composition kinds that lie in the
    evaluation domain (juxtaposition = one fc key attached to a bare hint or to an rc-carrying operand) and whose
    validity is not ambiguous.  Binary nodes only; same-kind children are bracketed by the canonical renderer, so the
    grouping is exactly the one of the AST.
    """

    def trees(count):
        if count == 1:
            for atom in atoms:
                yield list(atom)
            return
        for left_count in range(1, count):
            for left in trees(left_count):
                for right in trees(count - left_count):
                    for kind in KINDS:
                        yield [kind, [left, right]]

    for count in range(1, max_atoms + 1):
        for tree in trees(count):
            if in_evaluation_domain(tree) and validity(tree) != "ambiguous":
                yield tree
