"""
Hypothesis strategies: expression ASTs, renderers, AHB expressions, content evaluation results.
All randomness comes from Hypothesis draws, so every case shrinks and replays.
"""

from hypothesis import strategies as st

from vlib import ref

# the borders of the key ranges come first, so that every slice of a pool contains them
RC_POOL = ["1", "499", "2000", "2499", "2", "3", "4", "17"]
HINT_POOL = ["500", "900", "501", "502"]
FC_POOL = ["901", "999", "902", "903", "950"]
PKG_POOL = ["1P", "2P", "10P", "123P"]
REPEATABILITIES = [None, None, "0..1", "1..1", "1..5", "0..10", "2..23", "17..23"]

SIZES = {"quick": 12, "thorough": 30}

_ws = st.sampled_from(["", "", "", " ", " ", "  ", "\t", "\n", "\r\n", "\f", " \t "])
_ws_nonempty_bias = st.sampled_from(["", " ", " ", "  ", "\t", "\n"])


def ws():
    return _ws


@st.composite
def rc_key(draw, pool=None):
    if pool is not None:
        return draw(st.sampled_from(pool))
    if draw(st.integers(0, 3)) == 0:
        return str(draw(st.one_of(st.integers(1, 499), st.integers(2000, 2499))))
    return draw(st.sampled_from(RC_POOL))


@st.composite
def hint_key(draw, pool=None):
    if pool is not None:
        return draw(st.sampled_from(pool))
    if draw(st.integers(0, 3)) == 0:
        return str(draw(st.integers(500, 900)))
    return draw(st.sampled_from(HINT_POOL))


@st.composite
def fc_key(draw, pool=None):
    if pool is not None:
        return draw(st.sampled_from(pool))
    if draw(st.integers(0, 3)) == 0:
        return str(draw(st.integers(901, 999)))
    return draw(st.sampled_from(FC_POOL))


@st.composite
def any_atom(draw, kinds=ref.ATOMS, pkg_pool=None):
    kind = draw(st.sampled_from(kinds))
    if kind == "rc":
        return ["rc", draw(rc_key())]
    if kind == "hint":
        return ["hint", draw(hint_key())]
    if kind == "fc":
        return ["fc", draw(fc_key())]
    if kind == "pkg":
        key = draw(st.sampled_from(pkg_pool)) if pkg_pool else f"{draw(st.integers(1, 999))}P"
        rep = draw(st.sampled_from(REPEATABILITIES))
        if rep is None and draw(st.integers(0, 5)) == 0:
            low = draw(st.integers(0, 30))
            rep = f"{low}..{draw(st.integers(max(1, low), 99))}"
        return ["pkg", key, rep]
    return ["time", draw(st.sampled_from(["UB1", "UB2", "UB3"]))]


def _partition(draw, total, parts):
    """split `total` into `parts` positive integers"""
    if parts == 1:
        return [total]
    cuts = sorted(draw(st.lists(st.integers(1, total - 1), min_size=parts - 1, max_size=parts - 1, unique=True)))
    bounds = [0] + cuts + [total]
    return [bounds[i + 1] - bounds[i] for i in range(parts)]


@st.composite
def g_expr(draw, max_atoms=12, atom=None, max_children=4, kinds=ref.KINDS):
    """arbitrary well-formed expression AST (all key kinds unless `atom` is given) with 1..max_atoms atoms"""
    atom = atom or any_atom()
    total = draw(st.integers(1, max_atoms))

    def node(size, parent_kind):
        if size == 1:
            return draw(atom)
        kind = draw(st.sampled_from(kinds))
        count = draw(st.integers(2, min(size, max_children)))
        sizes = _partition(draw, size, count)
        children = [node(s, kind) for s in sizes]
        return [kind, children]

    return node(total, None)


@st.composite
def flat_chain(draw, max_atoms=12, atom=None):
    """bracket-free chain atom (op|juxtaposition) atom ...; returns (atoms, gaps)"""
    atom = atom or any_atom()
    count = draw(st.integers(2, max_atoms))
    atoms = [draw(atom) for _ in range(count)]
    gaps = [draw(st.sampled_from(ref.KINDS)) for _ in range(count - 1)]
    return atoms, gaps


# ---------------------------------------------------------------------------------------------------------- rendering


def _render_atom(draw, node, spaces):
    gap = (lambda: draw(_ws)) if spaces else (lambda: "")
    if node[0] == "pkg":
        body = node[1] + (gap() + node[2] if node[2] else "")
    else:
        body = node[1]
    return "[" + gap() + body + gap() + "]"


def render(draw, node, spaces=True, redundant=True, spellings=None, top=True):
    """
    Render an AST with drawn operator spelling/case, whitespace (Lark's WS alphabet only, never inside a terminal)
    and redundant brackets.  A child that is an operator node of lower or equal precedence is always bracketed.
    """
    gap = (lambda: draw(_ws)) if spaces else (lambda: "")
    if ref.is_atom(node):
        text = _render_atom(draw, node, spaces)
        if redundant and draw(st.integers(0, 9)) == 0:
            text = "(" + gap() + text + gap() + ")"
        return text
    kind = node[0]
    parts = []
    for child in node[1]:
        text = render(draw, child, spaces, redundant, spellings, top=False)
        if not ref.is_atom(child):
            needed = ref.PREC[child[0]] <= ref.PREC[kind]
            if needed or (redundant and draw(st.integers(0, 6)) == 0):
                text = "(" + gap() + text + gap() + ")"
                if redundant and draw(st.integers(0, 14)) == 0:
                    text = "(" + text + ")"
        parts.append(text)
    out = parts[0]
    for text in parts[1:]:
        spelling = draw(st.sampled_from((spellings or ref.SPELL)[kind]))
        out += gap() + spelling + gap() + text
    if top and redundant and draw(st.integers(0, 11)) == 0:
        out = "(" + gap() + out + gap() + ")"
    if top and spaces:
        out = gap() + out + gap()
    return out


def render_chain(draw, atoms, gaps, spaces=True):
    gap = (lambda: draw(_ws)) if spaces else (lambda: "")
    out = _render_atom(draw, atoms[0], spaces)
    for atom, kind in zip(atoms[1:], gaps):
        out += gap() + draw(st.sampled_from(ref.SPELL[kind])) + gap() + _render_atom(draw, atom, spaces)
    return out


# -------------------------------------------------------------------------------------- the evaluation domain (G_dom)


@st.composite
def g_dom(draw, max_atoms=12, mode="valid", pools=None, fc_dense=False, neutral_root=True, fc_groups=False):
    """
    Expression of the evaluation domain of C04-C07: keys rc/hint/fc; `then` is binary and attaches one fc key to a
    bare hint or to an operand that contains an rc.
      mode "valid": valid by construction.   mode "any": O/X nodes may also mix rc-carrying and neutral operands or
      pair a bare hint with a bare fc (invalid by the structural criterion); never ambiguous.
    Returns the AST; the root may be rc-carrying or neutral.
    """
    pools = pools or {}
    rc_atom = lambda: ["rc", draw(rc_key(pools.get("rc")))]  # noqa: E731
    hint_atom = lambda: ["hint", draw(hint_key(pools.get("hint")))]  # noqa: E731
    fc_atom = lambda: ["fc", draw(fc_key(pools.get("fc")))]  # noqa: E731
    then_weight = 4 if fc_dense else 2

    def neutral(size):
        if size == 1:
            return hint_atom() if draw(st.integers(0, 2 if fc_dense else 1)) == 0 else fc_atom()
        options = ["and", "or", "xor"]
        if size == 2:
            options += ["then"] * then_weight
        kind = draw(st.sampled_from(options))
        if kind == "then":
            pair = [hint_atom(), fc_atom()]
            if draw(st.integers(0, 3)) == 0:
                pair.reverse()
            return ["then", pair]
        count = draw(st.integers(2, min(size, 3)))
        children = [neutral(s) for s in _partition(draw, size, count)]
        node = [kind, children]
        if kind in ("or", "xor"):
            bare = {c[0] for c in children if c[0] in ("hint", "fc")}
            if bare == {"hint", "fc"} and not (mode == "any" and count == 2 and draw(st.integers(0, 1)) == 0):
                # would be invalid (binary) or ambiguous (n-ary): make the bare keys of one sort
                sort = draw(st.sampled_from(["hint", "fc"]))
                node[1] = [
                    (hint_atom() if sort == "hint" else fc_atom()) if c[0] in ("hint", "fc") else c for c in children
                ]
        return node

    def carrying(size):
        """contains at least one rc"""
        if size == 1:
            return rc_atom()
        options = ["and", "and", "or", "xor"] + ["then"] * then_weight
        kind = draw(st.sampled_from(options))
        if kind == "then":
            if fc_groups and size >= 3 and draw(st.sampled_from(range(3))) == 0:
                # a bracketed composition of format constraints attached on the right, as a package of them yields it
                group = [draw(st.sampled_from(["and", "or", "xor"])), [fc_atom(), fc_atom()]]
                return ["then", [carrying(size - 2), group]]
            pair = [carrying(size - 1), fc_atom()]
            if draw(st.integers(0, 3)) == 0:
                pair.reverse()
            return ["then", pair]
        count = draw(st.integers(2, min(size, 3)))
        sizes = _partition(draw, size, count)
        if kind == "and":
            lead = draw(st.integers(0, count - 1))
            children = []
            for index, sub in enumerate(sizes):
                if index == lead or draw(st.integers(0, 2)) > 0:
                    children.append(carrying(sub))
                else:
                    children.append(neutral(sub))
            return ["and", children]
        children = [carrying(sub) for sub in sizes]
        if mode == "any" and draw(st.integers(0, 2)) == 0:
            # inject an invalid mix: one operand that can only be NEUTRAL
            index = draw(st.integers(0, count - 1))
            children[index] = neutral(sizes[index])
        return [kind, children]

    total = draw(st.integers(1, max_atoms))
    root_kind = draw(st.integers(0, 9))
    if root_kind == 0 and neutral_root:
        return neutral(min(total, 4))
    return carrying(total)


@st.composite
def rc_assignment(draw, keys, values="FUK"):
    return {key: draw(st.sampled_from(values)) for key in keys}


# ------------------------------------------------------------------------------------------------- AHB expressions

MODAL_WORDS = ["M", "Muss", "S", "Soll", "K", "Kann"]
PREFIX_WORDS = ["X", "O", "U"]


@st.composite
def indicator_text(draw, words):
    word = draw(st.sampled_from(words))
    style = draw(st.sampled_from([0, 0, 0, 1, 1, 1, 2, 2, 2, 3, 3, 3, 4]))
    if style == 4:
        # the marks are matched case-insensitively by Python's Unicode rules, under which U+017F (long s) is an 's':
        # 'ſoll' / 'Muſs' are accepted and read as SOLL / MUSS (observed; ref.normalise_indicator upper-cases alike)
        return word.lower().replace("s", "\u017f") if "s" in word.lower() else word
    if style == 0:
        return word
    if style == 1:
        return word.upper()
    if style == 2:
        return word.lower()
    return "".join(c.upper() if draw(st.booleans()) else c.lower() for c in word)


@st.composite
def g_ahb_shape(draw, max_parts=4, prefix_ok=True, bare_ok=True):
    """
    The forms of C09 as a list of (indicator words, has_condition):
      1..max_parts modal parts (+ optional trailing bare modal mark) | one prefix operator part | a bare indicator
    """
    form = draw(st.integers(0, 9))
    if bare_ok and form == 0:
        return [[draw(indicator_text(MODAL_WORDS + PREFIX_WORDS)), False]]
    if prefix_ok and form in (1, 2):
        return [[draw(indicator_text(PREFIX_WORDS)), True]]
    count = draw(st.integers(1, max_parts))
    parts = [[draw(indicator_text(MODAL_WORDS)), True] for _ in range(count)]
    if bare_ok and draw(st.integers(0, 3)) == 0:
        parts.append([draw(indicator_text(MODAL_WORDS)), False])
    return parts


def render_ahb(draw, parts_with_text, spaces=True):
    """parts_with_text: [(indicator, condition_text | None)].  Whitespace only around condition expressions."""
    out = ""
    for indicator, cond in parts_with_text:
        out += indicator
        if cond is not None:
            lead = draw(_ws_nonempty_bias) if spaces else " "
            trail = draw(_ws_nonempty_bias) if spaces else " "
            out += lead + cond + trail
    return out


# ------------------------------------------------------------------------------------------------- CERs


@st.composite
def fc_truth(draw, keys):
    return {key: draw(st.booleans()) for key in keys}


# what may surround an entered text: the entered input is the text as it was entered
PADDINGS = ["", "", " ", "  ", "\t", "\n", "\r\n", "\u00a0", "\x1f", "\u2003"]
# entered texts that are no qualifier of any generated pool; several are meaningful to Python's formatting machinery
FOREIGN_TEXTS = ["Q", "zz", "a", " A", "100%", "%s", "%(A1)s", "5 % Rabatt", "{0}", "{", "}", "{A1}", "\\1", "$1", "'", '"',
                 "A1'", "\n", " ", "Z\x00", "Ä1", "ẞ", "Z" * 300, "0", "None", "A1, A2"]  # fmt: skip
HINT_TEXTS = [
    "Hinweis {key}",
    "Hinweis {key}",
    "[{key}] Nur anzugeben, wenn mindestens 50 % der Energiemenge betroffen sind",
    "{key}: %s %d %(name)s 100%",
    "{key} {{0}} {{}} {{x!r}}",
    "{key} 'einfach' \"doppelt\" \\ back",
    "{key} zwei\nZeilen\tTab",
    "{key} äöüß € ∧∨⊻ [1] U [2]",
    "{key}  zwei  Leerzeichen   drei (wie aus einem PDF kopiert) ",
    "{key} " + "sehr langer Hinweistext, " * 120,  # about 3000 characters
    # texts are data: characters with a compatibility mapping or a decomposed form are kept as they are
    "{key} Zählerstand in m³, Brennwert in kWh/m² … ½ µ ﬁ №",
    "{key} Za\u0308hler (zerlegt) A\u030a \u1e9b\u0323 \u00a0 \u2009 ＡＢ①",
    "",  # a hint that exists but has no text (Dict[str, Optional[str]]: only None means "no such hint")
]


def hints_for(keys):
    """hint texts that embed their key"""
    return {key: f"Hinweis {key}" for key in keys}


@st.composite
def hint_texts(draw, keys):
    """hint texts that embed their key and contain characters that matter to %-/str.format-/f-string handling"""
    return {key: draw(st.sampled_from(HINT_TEXTS)).replace("{key}", key) for key in keys}


@st.composite
def g_dom_invalid(draw, max_atoms=12, pools=None):
    """an expression of the evaluation domain that is invalid by the structural criterion, offending node anywhere"""
    pools = pools or {}
    ast = draw(g_dom(max_atoms=max_atoms, mode="any", pools=pools))
    if ref.validity(ast) == "invalid":
        return ast
    candidates = []
    for path, node in ref.sites(ast):
        if path:
            parent = ref.node_at(ast, path[:-1])
            if parent[0] == "then" and node[0] == "fc":
                continue  # the attached format constraint itself stays a single key
        candidates.append(path)
    path = draw(st.sampled_from(candidates))
    target = ref.node_at(ast, path)
    kind = draw(st.sampled_from(["or", "xor"]))
    if ref.has_rc(target):
        choice = draw(st.sampled_from(["hint", "fc", "then"]))
        if choice == "hint":
            other = ["hint", draw(hint_key(pools.get("hint")))]
        elif choice == "fc":
            other = ["fc", draw(fc_key(pools.get("fc")))]
        else:
            other = ["then", [["hint", draw(hint_key(pools.get("hint")))], ["fc", draw(fc_key(pools.get("fc")))]]]
    else:
        other = ["rc", draw(rc_key(pools.get("rc")))]
    pair = [target, other] if draw(st.booleans()) else [other, target]
    return ref.replace_at(ast, path, lambda _: [kind, pair])
