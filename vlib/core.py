"""
Shared definitions: Violation, fail, Stage, sha.  (Kept apart from runner.py, which runs as __main__.)
"""

import hashlib
import json
from dataclasses import dataclass, field
from typing import Any, Callable, Dict, Iterable, List, Optional, Tuple


class Violation(Exception):
    """the property does not hold for this case"""

    def __init__(self, clause: str, message: str, details: Any = None):
        super().__init__(f"[{clause}] {message}")
        self.clause = clause
        self.message = message
        self.details = details


def fail(clause: str, message: str, details: Any = None):
    """single raise site, so that Hypothesis sees one 'interesting origin' and shrinks to the simplest violation"""
    raise Violation(clause, message, details)


class StopStage(BaseException):
    """leaves Hypothesis when the post-failure or wall-clock budget is used up"""


@dataclass
class Stage:
    name: str
    kind: str  # "hyp" | "enum" | "machine"
    check: Callable[[Any], Any]
    classify: Callable[[Any, Any], Tuple[List[str], bool]]
    strategy: Optional[Callable[[str], Any]] = None  # tier -> SearchStrategy            (hyp)
    enumerate: Optional[Callable[..., Iterable[Any]]] = None  # (tier, shard, nshards, seed)  (enum)
    machine: Optional[Callable[..., Any]] = None  # (tier, recorder) -> machine class (machine)
    budget: Dict[str, int] = field(default_factory=dict)  # cases per shard and tier (hyp/machine)
    steps: Dict[str, int] = field(default_factory=dict)  # stateful_step_count per tier (machine)
    key: Optional[Callable[[Any], Any]] = None  # what makes a case distinct
    floors: Dict[str, float] = field(default_factory=dict)  # label -> minimal share of evaluations
    exhaustive: bool = False  # enum stages that enumerate their whole domain
    tiers: Tuple[str, ...] = ("quick", "thorough")
    shrink_budget: Dict[str, int] = field(default_factory=lambda: {"quick": 400, "thorough": 3000})
    sample: Optional[Callable[[Any], Any]] = None  # how a case is shown in evidence


def sha(obj) -> str:
    return hashlib.sha1(json.dumps(obj, sort_keys=True, ensure_ascii=False, default=str).encode("utf-8")).hexdigest()




def known_signatures(pid):
    """signatures of the open (status=known) entries of the committed known_findings.json for one property"""
    import json
    import os

    path = os.path.join(os.path.dirname(os.path.dirname(os.path.abspath(__file__))), "known_findings.json")
    if not os.path.exists(path):
        return set()
    with open(path, encoding="utf-8") as handle:
        entries = json.load(handle).get("findings", [])
    return {e.get("signature") for e in entries if e.get("property") == pid and e.get("status") == "known"}
