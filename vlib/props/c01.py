"""
C01 - Condition expressions are grouped by the documented operator precedence.

Expressions are generated as ASTs (so the intended grouping is known by construction, independently of Lark),
rendered with drawn operator spelling / case / whitespace / redundant brackets, parsed by the real parser and the
Lark tree is matched against the AST.  A second shape, bracket-free mixed chains, gets its expected AST from
precedence splitting (or < xor < and < juxtaposition).
"""

from hypothesis import strategies as st

from vlib import gen, ref, sut
from vlib import large
from vlib.core import Stage, fail

ID = "C01"
MANIFEST = {
    "category": "exploration",
    "text": "Generated-input search: ASTs over all five key kinds with n-ary operator nodes are rendered in 2-3 spellings (letters in both cases, MaKo2022 symbols, Lark-WS whitespace anywhere between tokens, redundant brackets) and parsed; the resulting Lark tree must be some in-order binary bracketing of exactly the AST (brackets > juxtaposition > U > X > O, grouping inside one-operator runs free). Bracket-free mixed chains of up to 12 (thorough 30) atoms get their expected AST by precedence splitting. One slice is enumerated completely: every operator sequence over {O, X, U, juxtaposition} for bracket-free chains of 2-4 (thorough 2-6) atoms, in every combination of the three spellings per operator, with and without blanks. Apart from that slice the search is bounded by expression size (Earley is cubic) and never exhaustive. Stage long-runs (enumerated): runs of 33-40 (thorough: -64) operands of one operator below a different root operator must come back as one composition.",
    "note": "Trusted: the AST matcher and precedence splitter in vlib/ref.py, the renderer in vlib/gen.py, Hypothesis. Size bound 12 atoms (quick) / 30 atoms (thorough). Process configuration by shard (vlib/sut.py; recorded in replay files): plain / parse caches preheated beyond their size / warnings attributed to ahbicht raised as errors / logging fully enabled with every record rendered; one event loop per process or a new one per call; five process time zones; the hash seed is the shard number; namesakes of ahbicht's marshmallow schema classes are registered.",
    "technique": "property-based testing with a by-construction oracle (AST -> render -> parse -> structural match)",
}
LEVEL = "exploration"
RULE = (
    "Hypothesis generates expression ASTs (stage nested) and bracket-free operator chains (stage chains), renders "
    "them with random spelling/case/whitespace/redundant brackets and matches the parser's tree against the AST; "
    "non-trivial = some bracket level of a rendered string has two different operator kinds (juxtaposition counts) "
    "on both sides of one operand, so only precedence decides the grouping; distinct by rendered string"
)
ASSUMPTIONS = [
    "whitespace is drawn from Lark's WS alphabet (blank, tab, form feed, CR, LF) and placed only between tokens",
    "packages carry repeatabilities n..m with 0<=n<=m, m>=1 (what the grammar and Repeatability accept)",
    "grouping inside a run of one operator is not constrained (left unspecified by the statement)",
]
BOUNDS = {"quick": {"max_atoms": 12}, "thorough": {"max_atoms": 30}}


def _parse():
    from ahbicht.expressions.condition_expression_parser import parse_condition_expression_to_tree

    return parse_condition_expression_to_tree


def gap_sequences(text):
    """per bracket level: the list of operator kinds between consecutive operands ('then' for juxtaposition)"""
    toks = ref.tokenize(text)
    if toks is None:
        return []
    sequences = []
    stack = [[]]  # each level: list of gaps; plus state whether an operand was just seen
    pending = [None]  # per level: None (no operand yet) / "operand" / op kind
    spell = {}
    for kind, letters in ref.SPELL.items():
        for letter in letters:
            if letter:
                spell[letter] = kind

    def operand(level):
        if pending[level] == "operand":
            stack[level].append("then")
        elif pending[level] is not None:
            stack[level].append(pending[level])
        pending[level] = "operand"

    i = 0
    while i < len(toks):
        kind, value = toks[i]
        level = len(stack) - 1
        if kind == "lb":
            # an atom: skip to the closing square bracket
            while i < len(toks) and toks[i][0] != "rb":
                i += 1
            operand(level)
        elif kind == "lp":
            operand(level)
            stack.append([])
            pending.append(None)
        elif kind == "rp":
            if len(stack) > 1:
                sequences.append(stack.pop())
                pending.pop()
        elif kind == "op":
            pending[level] = spell[value]
        i += 1
    sequences.extend(stack)
    return sequences


def mixed_adjacent(text) -> bool:
    return any(any(a != b for a, b in zip(seq, seq[1:])) for seq in gap_sequences(text))


def check_nested(case):
    parse = _parse()
    failed = sut.preheat_parse_caches()
    if failed is not None:
        fail("accepted", f"the parser raised {failed!r} for a well-formed string while the caches were being filled")
    ast = case["ast"]
    flattened = None
    shapes = []
    for index, text in enumerate(case["renderings"]):
        if index == 0 and case.get("resolve_first"):
            # ordinary use: the same string goes through the resolver (which replaces time conditions) before it is
            # parsed on its own; what the condition parser returns for it must not depend on that
            from ahbicht.expressions.expression_resolver import parse_expression_including_unresolved_subexpressions

            resolved = sut.call(parse_expression_including_unresolved_subexpressions, text)
            if not resolved.ok:
                fail("accepted", f"well-formed expression {text!r} was not resolved: {resolved!r}")
        res = sut.call(parse, text)
        if not res.ok:
            fail("accepted", f"well-formed expression {text!r} was not parsed: {res!r}")
        if not ref.match(res.value, ast):
            fail("grouping", f"{text!r} parsed as {ref.canonical(ref.tree_to_ast(res.value, False) or ['rc','?'])!r}, "
                 f"expected grouping {ref.canonical(ast)!r}")  # fmt: skip
        shape = ref.tree_to_ast(res.value, classify_keys=False)
        shapes.append(shape)
    for text, shape in zip(case["renderings"], shapes):
        if flattened is None:
            flattened = shape
        elif shape != flattened:
            fail("spelling-independent", f"renderings of one expression group differently: {case['renderings']!r}")
    return {}


def classify_nested(case, info):  # pylint:disable=unused-argument
    ast = case["ast"]
    labels = [f"ops={min(ref.count_ops(ast), 8)}", f"depth={min(ref.depth_of(ast), 5)}"]
    kinds = {a[0] for a in ref.atoms_of(ast)}
    if "pkg" in kinds:
        labels.append("has-package")
    if "time" in kinds:
        labels.append("has-time-condition")
    if any(c in t for t in case["renderings"] for c in "∧∨⊻"):
        labels.append("symbols")
    if any(c in t for t in case["renderings"] for c in "uox"):
        labels.append("lower-case")
    if any(len(t) > 250 for t in case["renderings"]):
        labels.append("longer-than-250-characters")
    mixed = any(mixed_adjacent(t) for t in case["renderings"])
    if mixed:
        labels.append("mixed-adjacent")
    return labels, mixed


def check_chain(case):
    parse = _parse()
    sut.preheat_parse_caches()
    expected = ref.split_by_precedence(case["atoms"], case["gaps"])
    res = sut.call(parse, case["s"])
    if not res.ok:
        fail("accepted", f"well-formed chain {case['s']!r} was not parsed: {res!r}")
    if not ref.match(res.value, expected):
        fail("grouping", f"chain {case['s']!r} parsed as {ref.canonical(ref.tree_to_ast(res.value, False) or ['rc','?'])!r}, "
             f"precedence says {ref.canonical(expected)!r}")  # fmt: skip
    return {}


def classify_chain(case, info):  # pylint:disable=unused-argument
    gaps = case["gaps"]
    labels = [f"len={min(len(case['atoms']), 16) // 4 * 4}+", f"kinds={len(set(gaps))}"]
    mixed = any(a != b for a, b in zip(gaps, gaps[1:]))
    if mixed:
        labels.append("mixed-adjacent")
    return labels, mixed


def strategy_nested(tier):
    size = gen.SIZES[tier]

    @st.composite
    def build(draw):
        ast = draw(gen.g_expr(max_atoms=size))
        count = draw(st.integers(2, 3))
        renderings = [gen.render(draw, ast) for _ in range(count - 1)]
        renderings.append(gen.render(draw, ast, spaces=draw(st.booleans()), redundant=False))
        if draw(st.sampled_from(range(6))) == 0:
            # a very long run of whitespace between two tokens (whitespace never changes the grouping, however much)
            pad = draw(st.sampled_from([" ", "\t", "\n"])) * draw(st.integers(120, 600))
            cut = draw(st.integers(0, renderings[-1].count("]")))
            pieces = renderings[-1].split("]")
            renderings.append("]".join(pieces[:cut + 1]) + ("]" + pad if cut + 1 < len(pieces) else pad) + "]".join(pieces[cut + 1:]))
        return {"ast": ast, "renderings": renderings, "resolve_first": draw(st.booleans())}

    return build()


def strategy_chain(tier):
    size = gen.SIZES[tier]

    @st.composite
    def build(draw):
        atoms, gaps = draw(gen.flat_chain(max_atoms=size))
        return {"atoms": atoms, "gaps": gaps, "s": gen.render_chain(draw, atoms, gaps, spaces=draw(st.booleans()))}

    return build()


# ------------------------------------------------------- complete enumeration of short bracket-free chains

SMALL = {"quick": 4, "thorough": 6}
_ATOMS = [["rc", "1"], ["hint", "501"], ["fc", "901"], ["pkg", "12P", "0..1"], ["time", "UB2"], ["rc", "2000"]]


def enumerate_small_chains(tier, shard, nshards, seed):  # pylint:disable=unused-argument
    """every operator sequence over {or, xor, and, then} for chains of 2..N atoms, as one bulk case per sequence"""
    import itertools

    index = 0
    for length in range(2, SMALL[tier] + 1):
        for gaps in itertools.product(ref.KINDS, repeat=length - 1):
            if index % nshards == shard:
                yield {"gaps": list(gaps)}
            index += 1


def check_small_chain(case):
    """all spellings (3 per explicit operator) of one operator sequence, without and with blanks"""
    import itertools

    parse = _parse()
    gaps = case["gaps"]
    atoms = [_ATOMS[i % len(_ATOMS)] for i in range(len(gaps) + 1)]
    expected = ref.split_by_precedence(atoms, gaps)
    rendered = [ref.canonical(a) for a in atoms]
    count = 0
    mixed = any(a != b for a, b in zip(gaps, gaps[1:]))
    sample = None
    for spelling in itertools.product(*[ref.SPELL[g] for g in gaps]):
        for blank in ("", " "):
            text = rendered[0]
            for atom_text, letter in zip(rendered[1:], spelling):
                text += blank + letter + blank + atom_text
            res = sut.call(parse, text)
            replay = {"replay_stage": "chains", "replay_case": {"atoms": atoms, "gaps": gaps, "s": text}}
            if not res.ok:
                from vlib.core import Violation

                raise Violation("accepted", f"well-formed chain {text!r} was not parsed: {res!r}", replay)
            if not ref.match(res.value, expected):
                from vlib.core import Violation

                raise Violation("grouping", f"chain {text!r} parsed as "
                                f"{ref.canonical(ref.tree_to_ast(res.value, False) or ['rc', '?'])!r}, precedence says "
                                f"{ref.canonical(expected)!r}", replay)  # fmt: skip
            count += 1
            sample = text
    return {"_bulk": {"evaluations": count, "nontrivial": count if mixed else 0,
                      "samples": [{"s": sample, "expected": ref.canonical(expected)}] if mixed else []}}  # fmt: skip


STAGES = [
    Stage(name="nested", kind="hyp", check=check_nested, classify=classify_nested, strategy=strategy_nested,
          budget={"quick": 250, "thorough": 1500}, key=lambda c: c["renderings"], floors={"mixed-adjacent": 0.25, "longer-than-250-characters": 0.03},
          sample=lambda c: {"renderings": c["renderings"], "expected": ref.canonical(c["ast"])}),
    Stage(name="chains", kind="hyp", check=check_chain, classify=classify_chain, strategy=strategy_chain,
          budget={"quick": 250, "thorough": 1500}, key=lambda c: c["s"], floors={"mixed-adjacent": 0.5},
          sample=lambda c: {"s": c["s"], "expected": ref.canonical(ref.split_by_precedence(c["atoms"], c["gaps"]))}),
    Stage(name="small-chains", kind="enum", check=check_small_chain, classify=lambda c, i: ([f"len={len(c['gaps']) + 1}"], True),
          enumerate=enumerate_small_chains, exhaustive=True),
    large.stage("long-runs", large.c01_check, large.c01_cases),
]  # fmt: skip
