"""
C12 - Results do not depend on the completion order of asynchronous evaluators.

The harness owns the schedule: user-supplied requirement-constraint evaluators, format-constraint evaluators, hints
provider and package resolver (vlib/sched.py) yield to the event loop a generated number of times per call, so the
completion order among the awaitables that ahbicht gathers is an input.  Stage `single`: result under the schedule ==
result when nothing yields == reference evaluator.  Stage `concurrent`: 2-5 evaluations (and validity checks) run
concurrently, each with its own content evaluation result in context-local storage; each must equal its run alone.
"""

import asyncio
import itertools
import re
from contextvars import ContextVar

from hypothesis import strategies as st

from vlib import evalhelp, gen, ref, sched, sut, vtree
from vlib.core import Stage, fail

ID = "C12"
MANIFEST = {
    "category": "exploration",
    "text": "Schedule exploration by generated-input search: (single) AHB expressions with several modal-mark parts, repeated keys, hints, format constraints and packages occurring several times x content evaluation results x a schedule (list of yield counts consumed call by call by the harness's async RcEvaluator / FcEvaluator methods, HintsProvider and PackageResolver; every third rc method is a plain function). The results of evaluate_ahb_expression_tree (incl. package expansion), requirement_constraint_evaluation and format_constraint_evaluation under the schedule must equal the results under the all-zero schedule and the reference evaluator's selection/outcome; the expanded tree must equal the zero-schedule tree. (concurrent) 2-5 jobs - AHB evaluations and is_valid_expression calls - run as concurrent tasks with yielding ContentEvaluationResult-based evaluators - or a method-based RcEvaluator whose evaluate_<key> coroutines derive their answer from the evaluatable data they are handed - that read the job's own result from a ContextVar; every job must equal its run alone. In a third of the concurrent cases every call of a user-supplied component first awaits one request in flight that all calls of the run share (unshielded, as user code does), and a quarter of the evaluation jobs lack the answer for one of their keys and fail with NotImplementedError while their other parts are still suspended: the healthy jobs next to them must not notice. For is_valid_expression jobs on expressions with 1-3 requirement constraints the harness records which evaluatable data the evaluations of the call were served: exactly the 3^m possible states, each evaluation its own. A third of the concurrent cases use a HintsProvider whose get_hint_text is a plain function reading the job's context-local data. Half of the is_valid_expression jobs go on to evaluate their expression in the same task; the outcome is judged by the reference and compared between the solo and the concurrent run. Stage failures: one requirement constraint method raises after its pauses and a hint text is missing; the error that reaches the caller must be the one of the zero schedule. The single stage also calls RcEvaluator.evaluate_conditions directly with evaluation contexts for half of the keys: every key must get its value, a key with a context must be evaluated in that context, the others in the default one. For every second schedule the package resolver's get_condition_expression is a plain function that returns the task of a look-up already under way (ahbicht awaits whatever it returns). Stage package-failures: expressions with 2-4 packages of which exactly one is unknown, resolved by a suspending resolver: the same NotImplementedError as when nothing yields.",
    "note": "Trusted: the schedule harness (vlib/sched.py), the reference evaluator, attrs equality of result objects. Delays enumerate completion orders among already started awaitables of one single-threaded event loop; threads are out of scope. Process configuration by shard (vlib/sut.py; recorded in replay files): plain / parse caches preheated beyond their size / warnings attributed to ahbicht raised as errors / logging fully enabled with every record rendered; one event loop per process or a new one per call; five process time zones; the hash seed is the shard number; namesakes of ahbicht's marshmallow schema classes are registered. Every registry of evaluators / providers / resolvers that the harness builds (sut.configure) also holds one of each kind that names no EDIFACT format and no format version; these must never be asked.",
    "technique": "property-based schedule exploration (harness-controlled yield counts) with differential (zero schedule) and reference oracles",
}
LEVEL = "exploration"
RULE = (
    "expression x content evaluation result x schedule; non-trivial (single) = some pair of evaluator calls of the "
    "same kind completed in the opposite order of their start and would return different values; non-trivial "
    "(concurrent) = evaluator calls of two different jobs overlapped in time; distinct by (string, result, schedule)"
)
ASSUMPTIONS = [
    "interleavings are those of one asyncio event loop: the awaits inside user-supplied evaluators/providers/resolvers",
]
BOUNDS = {"quick": {"max_atoms": 8}, "thorough": {"max_atoms": 12}}

_JOB = ContextVar("c12_job", default=None)
_CER = ContextVar("c12_cer", default=None)
_CURRENT = [sched.Schedule([])]


# ------------------------------------------------------------------------------------------------------ single


def _evaluate_all(case, delays):
    """one complete run of all entry points under a schedule; returns (dict of results, schedule)"""
    api = evalhelp.api()
    from ahbicht.expressions.expression_resolver import expand_packages

    schedule = sched.Schedule(delays)
    cer = case["cer"]
    sut.configure(sched.make_providers(schedule, rc=cer["rc"], fc=cer["fc"], hints=cer["hints"], packages=case["table"]))
    out = {}

    async def run():
        tree = await api.resolve(case["s"], resolve_packages=True)
        out["tree"] = tree
        out["ahb"] = await api.evaluate_ahb_expression_tree(tree)
        plain = await api.resolve(case["s"], resolve_packages=False, replace_time_conditions=False)
        out["expanded"] = await expand_packages(plain)
        first = next((p for p in case["parts"] if p[1] is not None), None)
        if first is not None:
            text = ref.canonical(first[1])
            out["rc"] = await api.requirement_constraint_evaluation(text)
            out["fc"] = await api.format_constraint_evaluation(out["rc"].format_constraints_expression)
        return out

    res = sut.call(run)
    return res, schedule


def check_single(case):
    base, _ = _evaluate_all(case, [])
    if not base.ok:
        fail("zero-schedule-raises", f"{case['s']!r} raised without any yielding: {base!r}")
    scheduled, schedule = _evaluate_all(case, case["delays"])
    if not scheduled.ok:
        fail("schedule-raises", f"{case['s']!r} under schedule {case['delays']} raised {scheduled!r}")
    for name in base.value:
        if base.value[name] != scheduled.value[name]:
            fail("schedule-dependent", f"{name} of {case['s']!r} under rc={case['cer']['rc']}: {scheduled.value[name]!r} under "
                 f"schedule {case['delays']}, but {base.value[name]!r} when nothing yields")  # fmt: skip
    # reference: selected part and its outcome
    parts = [p[:2] for p in case["parts"]]
    index = ref.select_part(parts, case["cer"]["rc"])
    result = scheduled.value["ahb"]
    expected_indicator = ref.normalise_indicator(parts[index][0])
    if str(getattr(result.requirement_indicator, "value", result.requirement_indicator)) != expected_indicator:
        fail("reference", f"{case['s']!r}: indicator {result.requirement_indicator!r}, reference selects part {index} ({expected_indicator})")
    expected_fulfilled = ref.part_fulfilled(parts[index][1], case["cer"]["rc"])
    if result.requirement_constraint_evaluation_result.requirement_constraints_fulfilled is not expected_fulfilled:
        fail("reference", f"{case['s']!r}: fulfilled = "
             f"{result.requirement_constraint_evaluation_result.requirement_constraints_fulfilled!r}, reference says {expected_fulfilled!r}")  # fmt: skip
    swapped = [(a, b) for a, b in schedule.reordered_pairs() if a[0] == b[0] and a[2] != b[2]]
    # RcEvaluator.evaluate_conditions directly, with evaluation contexts for some of the keys: every key gets its value,
    # a key with a context is evaluated in that context, the others in the default context - under the schedule
    from ahbicht.content_evaluation.evaluationdatatypes import EvaluationContext

    providers = sched.make_providers(sched.Schedule(case["delays"]), rc=case["cer"]["rc"])
    sut.configure(providers)
    keys = sorted(case["cer"]["rc"])
    given = {key: EvaluationContext(scope=f"$.given.{key}") for key in keys[::2]}
    res = sut.call(providers[0].evaluate_conditions, keys, sut.evaluatable_data(), given)
    if not res.ok:
        fail("contexts", f"evaluate_conditions({keys}, contexts for {sorted(given)}) under schedule {case['delays']} raised {res!r}")
    expected_values = {key: sut.cfv(case["cer"]["rc"][key]) for key in keys}
    if res.value != expected_values:
        fail("contexts", f"evaluate_conditions({keys}, contexts for {sorted(given)}) = {res.value}, expected {expected_values}")
    for key in set(keys):
        wanted = f"$.given.{key}" if key in given else None
        if providers[0].seen_scopes.get(key) != wanted:
            fail("contexts", f"evaluate_conditions: the method of [{key}] was handed a context with scope "
                 f"{providers[0].seen_scopes.get(key)!r}, expected {wanted!r} (contexts were given for {sorted(given)})")  # fmt: skip
    return {"swapped": len(swapped), "calls": schedule.calls, "max_active": schedule.max_active}


def classify_single(case, info):
    labels = [f"parts={len(case['parts'])}", f"concurrency={min(info['max_active'], 6)}"]
    if info["swapped"]:
        labels.append("completion-order-swapped")
    if case["table"]:
        labels.append("with-packages")
    return labels, info["swapped"] > 0


# ---------------------------------------------------------------------------------------------------- failures


def check_failures(case):
    """
    One user-supplied component fails (a requirement constraint method raises after its pauses) and a hint text is
    missing: which error reaches the caller must not depend on the schedule either - it is the one obtained when
    nothing yields.  (Exactly one failing evaluator method: with two, the first one in time wins already in asyncio.gather.)
    """
    api = evalhelp.api()
    outcomes = []
    for delays in ([], case["delays"]):
        schedule = sched.Schedule(delays)
        cer = case["cer"]
        hints = {k: v for k, v in cer["hints"].items() if k not in case["missing_hints"]}
        sut.configure(sched.make_providers(schedule, rc=cer["rc"], fc=cer["fc"], hints=hints, rc_raises=case["failing_rc"]))
        res = sut.call(api.requirement_constraint_evaluation, case["s"])
        outcomes.append((f"raised {res.type}: {res.exc}"[:160] if not res.ok else repr(res.value)))
    if outcomes[0] != outcomes[1]:
        fail("schedule-dependent", f"requirement_constraint_evaluation({case['s']!r}) with a failing evaluator for {case['failing_rc']} and "
             f"no hint text for {case['missing_hints']}: {outcomes[1]} under schedule {case['delays']}, but {outcomes[0]} when nothing yields")  # fmt: skip
    return {"raised": outcomes[0].startswith("raised")}


def strategy_failures(tier):  # pylint:disable=unused-argument
    @st.composite
    def build(draw):
        rc_keys = draw(st.lists(st.sampled_from(vtree.RC), min_size=1, max_size=3, unique=True))
        hint_keys = draw(st.lists(st.sampled_from(vtree.HINTS), min_size=1, max_size=2, unique=True))
        atoms = [["rc", k] for k in rc_keys] + [["hint", k] for k in hint_keys]
        atoms = draw(st.permutations(atoms))
        ast = ["and", list(atoms)]
        cer = draw(vtree.g_cer(weights="FFU"))
        return {"s": gen.render(draw, ast, redundant=False), "cer": cer, "failing_rc": [draw(st.sampled_from(rc_keys))],
                "missing_hints": draw(st.sampled_from([[], [hint_keys[0]], list(hint_keys)])), "delays": _delays(draw, 12)}

    return build()


def check_package_failures(case):
    """
    One of several packages of an expression is unknown to a resolver that really suspends: the resolution fails with
    the same error (NotImplementedError naming that package) whatever the order in which the look-ups complete.
    """
    api = evalhelp.api()
    outcomes = []
    for delays in ([], case["delays"]):
        schedule = sched.Schedule(delays)
        sut.configure(sched.make_providers(schedule, packages=case["table"]))
        res = sut.call(api.resolve, case["s"], True, True)
        # (the message names the resolver object; its address is no part of the outcome)
        outcomes.append((re.sub(r" at 0x[0-9a-fA-F]+", "", f"raised {res.type}: {res.exc}")[:200] if not res.ok else "returned a tree"))
    if outcomes[0] != outcomes[1]:
        fail("schedule-dependent", f"resolving {case['s']!r} with packages {case['table']} (one of them unknown): {outcomes[1]} under "
             f"schedule {case['delays']}, but {outcomes[0]} when nothing yields")  # fmt: skip
    if not outcomes[0].startswith("raised NotImplementedError"):
        fail("unknown-package", f"resolving {case['s']!r} with packages {case['table']}: {outcomes[0]}")
    return {}


def strategy_package_failures(tier):  # pylint:disable=unused-argument
    @st.composite
    def build(draw):
        keys = draw(st.lists(st.sampled_from(["1P", "2P", "3P", "10P"]), min_size=2, max_size=4, unique=True))
        unknown = draw(st.sampled_from(keys))
        table = {key: (None if key == unknown else draw(st.sampled_from(["[1]", "[2] U [901]", "[1] O [2]"]))) for key in keys}
        atoms = [["pkg", key, None] for key in keys] + ([["rc", "1"]] if draw(st.booleans()) else [])
        atoms = list(draw(st.permutations(atoms)))
        ast = [draw(st.sampled_from(["and", "or"])), atoms[:2]]
        for atom in atoms[2:]:
            ast = [draw(st.sampled_from(["and", "or", "xor"])), [ast, atom] if draw(st.booleans()) else [atom, ast]]
        text = gen.render(draw, ast, redundant=False)
        if draw(st.booleans()):
            text = f"{draw(gen.indicator_text(gen.MODAL_WORDS))} {text} "
        return {"s": text, "table": table, "unknown": unknown, "delays": _delays(draw, 12)}

    return build()


# -------------------------------------------------------------------------------------------------- concurrent


_BACKEND = {"rounds": None, "task": None}


async def _handshake(rounds):
    for _ in range(rounds):
        await asyncio.sleep(0)
    return True


async def _pause(label):
    """
    What a call of a user-supplied component waits for: (optionally) the one request in flight that every call of the
    run shares - a connection handshake, a token refresh; whoever needs it awaits the same task, unshielded, as user code
    commonly does - and then its own scheduled pauses.
    """
    if _BACKEND["rounds"] is not None:
        task = _BACKEND["task"]
        if task is None or task.get_loop() is not asyncio.get_running_loop():
            task = _BACKEND["task"] = asyncio.ensure_future(_handshake(_BACKEND["rounds"]))
        await task
    await _CURRENT[0].pause(label)


def _known_or_raise(condition_key, evaluatable_data):
    """a user-supplied evaluator checks its arguments before it goes to its backend"""
    if condition_key not in evaluatable_data.body["requirement_constraints"]:
        raise NotImplementedError(f"No result was provided for condition '{condition_key}'.")


def _yielding_cer_based_providers(method_based_rc=False, sync_hints=False):
    from ahbicht.content_evaluation.fc_evaluators import ContentEvaluationResultBasedFcEvaluator
    from ahbicht.content_evaluation.rc_evaluators import ContentEvaluationResultBasedRcEvaluator
    from ahbicht.expressions.hints_provider import ContentEvaluationResultBasedHintsProvider
    from ahbicht.expressions.package_expansion import ContentEvaluationResultBasedPackageResolver

    class Rc(ContentEvaluationResultBasedRcEvaluator):
        async def evaluate_single_condition(self, condition_key, evaluatable_data, context=None):
            _known_or_raise(condition_key, evaluatable_data)
            await _pause(("rc", condition_key, _JOB.get()))
            return await super().evaluate_single_condition(condition_key, evaluatable_data, context)

    class Fc(ContentEvaluationResultBasedFcEvaluator):
        async def evaluate_single_format_constraint(self, condition_key):
            await _pause(("fc", condition_key, _JOB.get()))
            result = await super().evaluate_single_format_constraint(condition_key)
            await _pause(("fc-after", condition_key, _JOB.get()))
            return result

    class Hints(ContentEvaluationResultBasedHintsProvider):
        async def get_hint_text(self, condition_key):
            await _pause(("hint", condition_key, _JOB.get()))
            return await super().get_hint_text(condition_key)

    class Packages(ContentEvaluationResultBasedPackageResolver):
        async def get_condition_expression(self, package_key):
            await _pause(("pkg", package_key, _JOB.get()))
            return await super().get_condition_expression(package_key)

    rc_evaluator = Rc()
    if method_based_rc:
        # a user-style evaluator: one (mostly asynchronous) evaluate_<key> method per condition, each of which derives
        # its answer from the evaluatable data it is handed (here: the job's own dumped content evaluation result)
        from ahbicht.content_evaluation.evaluationdatatypes import EvaluationContext
        from ahbicht.content_evaluation.rc_evaluators import RcEvaluator

        class MethodRc(RcEvaluator):
            def _get_default_context(self):
                return EvaluationContext(scope=None)

        for index, key in enumerate(vtree.RC):
            if index % 4 == 3:

                def plain(self, evaluatable_data, context, key=key):  # pylint:disable=unused-argument
                    _known_or_raise(key, evaluatable_data)
                    return sut.CFV(evaluatable_data.body["requirement_constraints"][key])

                setattr(MethodRc, f"evaluate_{key}", plain)
            else:

                async def delayed(self, evaluatable_data, context, key=key):  # pylint:disable=unused-argument
                    _known_or_raise(key, evaluatable_data)
                    await _pause(("rc", key, _JOB.get()))
                    return sut.CFV(evaluatable_data.body["requirement_constraints"][key])

                setattr(MethodRc, f"evaluate_{key}", delayed)
        rc_evaluator = MethodRc()
    hints_provider = Hints()
    if sync_hints:
        # get_hint_text may be a plain function (HintsProvider.get_hints supports both); this one takes the texts from
        # the job's own content evaluation result in context-local storage, like the shipped providers do
        from ahbicht.expressions.hints_provider import HintsProvider

        class SyncHints(HintsProvider):
            def get_hint_text(self, condition_key):  # pylint:disable=invalid-overridden-method
                return _CER.get().hints.get(condition_key)

        hints_provider = SyncHints()
    providers = [rc_evaluator, Fc(), hints_provider, Packages()]
    for provider in providers:
        provider.edifact_format, provider.edifact_format_version = sut.FMT, sut.VER
    return providers


def _configure_concurrent(method_based_rc=False, sync_hints=False):
    from ahbicht.models.content_evaluation_result import ContentEvaluationResultSchema

    schema = ContentEvaluationResultSchema()

    def data():
        body = schema.dump(_CER.get())
        _SEEN.setdefault(_JOB.get(), set()).add(tuple(sorted(body["requirement_constraints"].items())))
        return sut.evaluatable_data(body)

    sut.configure(_yielding_cer_based_providers(method_based_rc, sync_hints), data)


_SEEN = {}  # job index -> the requirement constraint assignments of the evaluatable data served inside that job


def _all_possible_results_seen(index, job, how):
    """
    is_valid_expression runs one evaluation per possible content evaluation result, concurrently, and each of them
    must see its own: over the evaluations of one call, the data served are exactly the 3^m assignments
    """
    ast = job["parts"][0][1]
    keys = ref.keys_of(ast, "rc")
    if not 1 <= len(keys) <= 3 or ref.keys_of(ast, "pkg"):
        return
    seen = {tuple((k, v) for k, v in items if k in keys) for items in _SEEN.get(index, set())}
    expected = {tuple(sorted(zip(keys, combo))) for combo in itertools.product(["FULFILLED", "UNFULFILLED", "UNKNOWN"], repeat=len(keys))}
    if {tuple(sorted(x)) for x in seen} != expected:
        fail("validity-own-data", f"is_valid_expression({job['s']!r}) {how}: its {len(expected)} evaluations (one per possible content "
             f"evaluation result) were served the requirement constraint states {sorted(seen)} - each must see its own, "
             f"i.e. all of {sorted(expected)}")  # fmt: skip


async def _job(index, job):
    from ahbicht.content_evaluation import is_valid_expression

    api = evalhelp.api()
    _JOB.set(index)
    # a job may lack the answer for one of its keys: its evaluation fails (NotImplementedError), the other jobs do not care
    rc = {key: value for key, value in job["cer"]["rc"].items() if key != job.get("missing_rc")}
    cer = sut.make_cer(rc=rc, fc=job["cer"]["fc"], hints=job["cer"]["hints"], packages=job["table"])
    _CER.set(cer)
    if job["kind"] == "validity":
        verdict = await is_valid_expression(job["s"], _CER.set)
        if verdict[0] is not True or not job.get("then_evaluate"):
            return verdict
        # the job goes on in the same task: its own context-local data must still be in place
        tree = await api.resolve(job["s"], resolve_packages=True)
        follow_up = await sut.acall(api.evaluate_ahb_expression_tree(tree))
        if not follow_up.ok and not follow_up.is_a(NotImplementedError):
            raise follow_up.exc
        return verdict + (("raised NotImplementedError",) if not follow_up.ok else (follow_up.value,))
    tree = await api.resolve(job["s"], resolve_packages=True)
    return await api.evaluate_ahb_expression_tree(tree)


def check_concurrent(case):
    jobs = case["jobs"]
    _configure_concurrent(case.get("method_based_rc", False), case.get("sync_hints", False))
    # every job alone, nothing yields
    alone = []
    _BACKEND["rounds"] = case.get("shared_backend")
    for index, job in enumerate(jobs):
        _CURRENT[0] = sched.Schedule([])
        _BACKEND["task"] = None

        async def one(index=index, job=job):
            return await asyncio.create_task(_job(index, job))

        _SEEN.clear()
        res = sut.call(one)
        if not res.ok and not res.is_a(NotImplementedError):
            fail("alone-raises", f"job {index} ({job['kind']} of {job['s']!r}) raised on its own: {res!r}")
        alone.append(res)
        if job["kind"] == "evaluate" and res.ok:
            # the evaluator set is long-lived within this case (earlier jobs ran on it with other data): every job
            # must still be judged by its own content evaluation result
            parts = [p[:2] for p in job["parts"]]
            chosen = ref.select_part(parts, job["cer"]["rc"])
            indicator = res.value.requirement_indicator
            if str(getattr(indicator, "value", indicator)) != ref.normalise_indicator(parts[chosen][0]):
                fail("reference", f"job {index} ({job['s']!r}, rc={job['cer']['rc']}) run on its own after {index} other jobs on the "
                     f"same evaluators: indicator {indicator!r}, reference selects part {chosen}")  # fmt: skip
            expected_fulfilled = ref.part_fulfilled(parts[chosen][1], job["cer"]["rc"])
            if res.value.requirement_constraint_evaluation_result.requirement_constraints_fulfilled is not expected_fulfilled:
                fail("reference", f"job {index} ({job['s']!r}, rc={job['cer']['rc']}) run on its own after {index} other jobs on the "
                     f"same evaluators: fulfilled = {res.value.requirement_constraint_evaluation_result.requirement_constraints_fulfilled!r}, "
                     f"reference says {expected_fulfilled!r}")  # fmt: skip
        if job["kind"] == "validity" and res.ok and res.value[0] is True:
            _all_possible_results_seen(index, job, "run on its own")
            if len(res.value) == 3:
                # evaluated right after the validity check, in the same task: judged by the job's own data
                parts = [p[:2] for p in job["parts"]]
                expected_fulfilled = ref.part_fulfilled(parts[0][1], job["cer"]["rc"])
                got = res.value[2]
                if expected_fulfilled is None and ref.normalise_indicator(parts[0][0]) in ("MUSS", "X", "O", "U", "SOLL", "KANN"):
                    pass  # undetermined: NotImplementedError or an undetermined result, not judged here
                elif got == "raised NotImplementedError" or (
                    got.requirement_constraint_evaluation_result.requirement_constraints_fulfilled is not expected_fulfilled
                ):
                    fail("reference", f"job {index}: evaluation of {job['s']!r} right after is_valid_expression in the same task, own "
                         f"data rc={job['cer']['rc']}: {got!r}, the reference says fulfilled = {expected_fulfilled!r}")  # fmt: skip
        if job["kind"] == "validity" and res.ok:
            verdict = "invalid" if any(ref.validity(p[1]) == "invalid" for p in job["parts"] if p[1] is not None) else "valid"
            if (res.value[0] is True) != (verdict == "valid"):
                fail("reference", f"is_valid_expression({job['s']!r}) = {res.value!r} but the expression is {verdict} by structure")
    # all jobs concurrently under the schedule
    schedule = sched.Schedule(case["delays"])
    _CURRENT[0] = schedule
    _BACKEND["task"] = None

    async def together():
        tasks = [asyncio.create_task(sut.acall(_job(index, job))) for index, job in enumerate(jobs)]
        return await asyncio.gather(*tasks)

    _SEEN.clear()
    res = sut.call(together)
    if not res.ok:
        fail("concurrent-raises", f"running {len(jobs)} jobs concurrently raised {res!r}")
    for index, (single, concurrent) in enumerate(zip(alone, res.value)):
        if single.ok != concurrent.ok:
            fail("job-differs", f"job {index} ({jobs[index]['kind']} of {jobs[index]['s']!r}): alone {single!r}, concurrently {concurrent!r}")
        if single.ok and jobs[index]["kind"] == "validity":
            # only the verdict is compared: for an invalid expression every generated content evaluation result
            # raises, and which of these equally valid reasons is reported first is incidental
            if single.value[0] is not concurrent.value[0] or (concurrent.value[0] is False and not concurrent.value[1]):
                fail("job-differs", f"job {index} (validity of {jobs[index]['s']!r}): {concurrent.value!r} when run "
                     f"concurrently with {len(jobs) - 1} others, {single.value!r} alone")  # fmt: skip
            if concurrent.value[0] is True:
                _all_possible_results_seen(index, jobs[index], f"run concurrently with {len(jobs) - 1} other jobs")
            if len(single.value) == 3 and single.value[2] != concurrent.value[2]:
                fail("job-differs", f"job {index}: evaluation of {jobs[index]['s']!r} right after is_valid_expression under "
                     f"rc={jobs[index]['cer']['rc']}: {concurrent.value[2]!r} when run concurrently, {single.value[2]!r} alone")  # fmt: skip
        elif single.ok and single.value != concurrent.value:
            fail("job-differs", f"job {index} ({jobs[index]['kind']} of {jobs[index]['s']!r}) under rc={jobs[index]['cer']['rc']}: "
                 f"{concurrent.value!r} when run concurrently with {len(jobs) - 1} others, {single.value!r} alone")  # fmt: skip
        if not single.ok and type(single.exc) is not type(concurrent.exc):
            fail("job-differs", f"job {index}: alone {single!r}, concurrently {concurrent!r}")
    interleaved = sum(1 for a, b in schedule.overlaps if a[2] != b[2])
    return {"interleaved": interleaved, "calls": schedule.calls}


def classify_concurrent(case, info):
    labels = [f"jobs={len(case['jobs'])}", "rc-evaluator=" + ("methods" if case.get("method_based_rc") else "cer-based"),
              "hints-provider=" + ("plain-function" if case.get("sync_hints") else "coroutine")]
    if info["interleaved"]:
        labels.append("jobs-interleaved")
    if any(j["kind"] == "validity" for j in case["jobs"]):
        labels.append("with-validity-check")
    if case.get("shared_backend") is not None:
        labels.append("calls-share-a-request-in-flight")
    if any(j.get("missing_rc") for j in case["jobs"]):
        labels.append("a-job-fails")
        if case.get("shared_backend") is not None and any(not j.get("missing_rc") for j in case["jobs"]):
            labels.append("a-job-fails-next-to-healthy-ones-sharing-a-request")
    return labels, info["interleaved"] > 0


# --------------------------------------------------------------------------------------------------- generators


@st.composite
def _expression(draw, size, with_packages=True):
    table, table_asts = draw(vtree.package_table()) if with_packages else ({}, {})
    expr = draw(vtree.node_expression(table_asts, max_parts=3, size=size))
    # node_expression keeps the written condition texts inside "s" only; parts = [indicator, expanded ast]
    return expr, table


def _delays(draw, calls_hint=40):
    return draw(st.lists(st.sampled_from([0, 0, 1, 2, 3, 5, 8]), min_size=3, max_size=calls_hint))


def strategy_single(tier):
    size = BOUNDS[tier]["max_atoms"]

    @st.composite
    def build(draw):
        candidates = [draw(_expression(size)) for _ in range(3)]
        # prefer the candidate with the most evaluator calls: only then can completion orders differ
        expr, table = max(candidates, key=lambda c: sum(len(ref.atoms_of(p[1])) for p in c[0]["parts"] if p[1] is not None))
        used = table if any(key in expr["s"] for key in table) else {}
        cer = draw(vtree.g_cer(weights="FUK"))
        return {"s": expr["s"], "parts": expr["parts"], "table": table if used else {}, "cer": cer, "delays": _delays(draw)}

    return build()


def strategy_concurrent(tier):
    size = BOUNDS[tier]["max_atoms"]

    @st.composite
    def build(draw):
        jobs = []
        for _ in range(draw(st.integers(2, 5))):
            kind = draw(st.sampled_from(["evaluate", "evaluate", "evaluate", "validity"]))
            if kind == "validity":
                if draw(st.booleans()):
                    ast = draw(gen.g_dom(max_atoms=size, mode="valid", pools=vtree.POOLS))
                else:
                    ast = draw(gen.g_dom_invalid(max_atoms=size, pools=vtree.POOLS))
                indicator = draw(gen.indicator_text(gen.MODAL_WORDS + ["X", "O", "U"]))
                text = f"{indicator} {gen.render(draw, ast, redundant=False, top=False)} "
                jobs.append({"kind": kind, "s": text, "parts": [[indicator, ast]], "table": {}, "cer": draw(vtree.g_cer()),
                             "then_evaluate": draw(st.booleans())})
            else:
                expr, table = draw(_expression(size))
                jobs.append({"kind": kind, "s": expr["s"], "parts": expr["parts"], "table": table, "cer": draw(vtree.g_cer())})
                asked = sorted({k for part in expr["parts"] if part[1] is not None for k in ref.keys_of(part[1], "rc")})
                if asked and draw(st.sampled_from(range(4))) == 0:
                    jobs[-1]["missing_rc"] = draw(st.sampled_from(asked))
        return {"jobs": jobs, "delays": _delays(draw, 60), "method_based_rc": draw(st.booleans()),
                "sync_hints": draw(st.sampled_from([False, False, True])),
                "shared_backend": draw(st.sampled_from([None, None, 2, 6, 12, 30]))}

    return build()


STAGES = [
    Stage(name="single", kind="hyp", check=check_single, classify=classify_single, strategy=strategy_single,
          budget={"quick": 200, "thorough": 3000}, key=lambda c: [c["s"], c["cer"], c["delays"]],
          floors={"completion-order-swapped": 0.3, "with-packages": 0.1},
          sample=lambda c: {"s": c["s"], "rc": c["cer"]["rc"], "delays": c["delays"]}),
    Stage(name="failures", kind="hyp", check=check_failures, strategy=strategy_failures,
          classify=lambda c, i: (["missing-hints=" + str(len(c["missing_hints"]))], bool(c["missing_hints"]) and any(c["delays"])),
          budget={"quick": 60, "thorough": 600}, key=lambda c: [c["s"], c["failing_rc"], c["missing_hints"], c["delays"]],
          sample=lambda c: {"s": c["s"], "failing": c["failing_rc"], "missing_hints": c["missing_hints"], "delays": c["delays"]}),
    Stage(name="package-failures", kind="hyp", check=check_package_failures, strategy=strategy_package_failures,
          classify=lambda c, i: ([f"packages={len(c['table'])}"], any(c["delays"])),
          budget={"quick": 40, "thorough": 400}, key=lambda c: [c["s"], c["table"], c["delays"]],
          sample=lambda c: {"s": c["s"], "table": c["table"], "delays": c["delays"]}),
    Stage(name="concurrent", kind="hyp", check=check_concurrent, classify=classify_concurrent, strategy=strategy_concurrent,
          budget={"quick": 100, "thorough": 1500},
          floors={"jobs-interleaved": 0.4, "with-validity-check": 0.2, "a-job-fails-next-to-healthy-ones-sharing-a-request": 0.1},
          sample=lambda c: {"jobs": [(j["kind"], j["s"], j["cer"]["rc"]) for j in c["jobs"]], "delays": c["delays"]}),
]  # fmt: skip
