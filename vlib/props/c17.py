"""
C17 - Value pools offer exactly the admissible qualifiers and judge input by them.

Value pools (1-5 entries with valid AHB expressions) x entered inputs (absent, empty, offered, in the pool but not
offered, foreign) x parent statuses x content evaluation results.  The oracle is written from the statement: offered =
qualifiers whose own expression evaluates to fulfilled (a single-entry pool offers its entry), in pool order.
"""

from contextvars import ContextVar

from hypothesis import strategies as st

from vlib import gen, ref, sut, vtree
from vlib import large
from vlib.core import Stage, fail

ID = "C17"
MANIFEST = {
    "category": "exploration",
    "text": "Generated-input search against an oracle written from the statement: value pools of 1-5 entries (valid AHB expressions of all documented forms, incl. packages) x entered input in {absent, empty, an offered qualifier, a pool qualifier that is not offered, a foreign value} x parent status in {required, optional, forbidden} x content evaluation results incl. UNKNOWN, through validate_data_element_valuepool directly and through validate_segment; a quarter of the cases inject the shipped ContentEvaluationResult based evaluators once and validate the same pool twice under two different content evaluation results that define its packages differently. possible_values must list exactly the qualifiers whose own expression is fulfilled, in pool order, with their meanings; nothing offered or forbidden segment => IS_FORBIDDEN with nothing offered; entered value offered => ..._AND_FILLED and not flagged; entered non-empty value not offered => flagged (format_validation_fulfilled False) and ..._AND_EMPTY; no input => ..._AND_EMPTY, not flagged. Meaning texts of pool entries are generated as well (blank, '0', equal to the qualifier). Stage large-pools (enumerated): pools of 101-150 (thorough: 64-400) entries of which every 3rd / 7th is admissible, through both entry points. A fifth of the pools contain an entry with a well-formed but invalid expression, which is always selectable. A quarter of the entry expressions write every requirement constraint as a package (several packages at different depths).",
    "note": "Trusted: the reference evaluation of entry expressions (vlib/ref.py) and the oracle in this module. Whether a non-forbidden pool is reported REQUIRED or OPTIONAL is not constrained by the statement and not checked. Process configuration by shard (vlib/sut.py; recorded in replay files): plain / parse caches preheated beyond their size / warnings attributed to ahbicht raised as errors / logging fully enabled with every record rendered; one event loop per process or a new one per call; five process time zones; the hash seed is the shard number; namesakes of ahbicht's marshmallow schema classes are registered. Every registry of evaluators / providers / resolvers that the harness builds (sut.configure) also holds one of each kind that names no EDIFACT format and no format version; these must never be asked.",
    "technique": "property-based testing against a reference predicate (offered set computed by the reference evaluator)",
}
LEVEL = "exploration"
RULE = (
    "value pool x entered input x parent status x content evaluation result; non-trivial = multi-entry pool of which "
    "a proper non-empty subset is offered, or nothing is offered under a non-forbidden parent; distinct by case"
)
ASSUMPTIONS = [
    "entry expressions are valid (C16 covers invalid ones); a qualifier may occur twice in a pool: it is offered if one of its entries is fulfilled, and only the set of offered qualifiers is compared then",
    "REQUIRED vs OPTIONAL in the reported status of a non-forbidden pool is unconstrained",
]
BOUNDS = {"quick": {}, "thorough": {}}


def _api():
    from ahbicht.models.validation_values import RequirementValidationValue
    from ahbicht.validation.validation import validate_data_element_valuepool, validate_segment

    return validate_data_element_valuepool, validate_segment, RequirementValidationValue


def judge(result, element, offered, parent_forbidden, what):
    """result: DataElementValidationResult"""
    status = str(result.requirement_validation)
    possible = list((result.possible_values or {}).items())
    entered = element["inp"]
    if parent_forbidden:
        if status != "IS_FORBIDDEN":
            fail("forbidden-parent", f"{what}: segment forbidden but the pool is reported {status}")
        if possible:
            fail("forbidden-parent", f"{what}: segment forbidden but values {possible} are offered")
        return
    meanings = {}
    for entry in element["pool"]:
        meanings.setdefault(entry["q"], vtree.meaning(entry))  # the generator gives a repeated qualifier one meaning
    expected_possible = [(q, meanings[q]) for q in offered]
    qualifiers = [e["q"] for e in element["pool"]]
    if len(set(qualifiers)) != len(qualifiers):
        # a qualifier occurs more than once: which of its positions counts as "its" place is not specified
        if sorted(possible) != sorted(expected_possible):
            fail("offered", f"{what}: offered values {possible}, expected exactly the qualifiers {sorted(offered)}")
    elif possible != expected_possible:
        fail("offered", f"{what}: offered values {possible}, expected exactly {expected_possible} (pool order)")
    if not offered:
        if status != "IS_FORBIDDEN":
            fail("nothing-offered", f"{what}: nothing is offered but the element is reported {status} instead of forbidden")
        return
    if entered in offered:
        if not status.endswith("_AND_FILLED"):
            fail("accepted-value", f"{what}: entered {entered!r} is offered but status is {status}")
        if result.format_validation_fulfilled is not True:
            fail("accepted-value", f"{what}: entered {entered!r} is offered but it was flagged")
    elif entered:
        if result.format_validation_fulfilled is not False:
            fail("unexpected-value", f"{what}: entered {entered!r} is not offered ({offered}) but was not flagged")
        if not status.endswith("_AND_EMPTY"):
            fail("unexpected-value", f"{what}: entered {entered!r} is not offered but status is {status}, not ..._AND_EMPTY")
    else:
        if not status.endswith("_AND_EMPTY"):
            fail("no-input", f"{what}: no input but status is {status}")
        if result.format_validation_fulfilled is not True:
            fail("no-input", f"{what}: no input but the element was flagged")


_CER = ContextVar("c17_cer", default=None)


def check_long_lived(case):
    """
    The shipped ContentEvaluationResult based evaluators are injected once (their intended use: a long-lived set of
    evaluators, the evaluatable data decide) and the same pool is validated twice, under two different content
    evaluation results that also define the packages differently.  Each validation must judge by its own data.
    """
    direct, _, values = _api()
    element, parent = case["element"], case["parent"]
    sut.setup_cer_based(_CER)
    info = {"offered": 0, "pool": len(element["pool"])}
    for round_number, name in enumerate(("first", "second")):
        cer, table = case[name]["cer"], case[name]["table"]
        _CER.set(sut.make_cer(rc=cer["rc"], fc=cer["fc"], hints=cer["hints"], packages=table))
        pool = [{**e, "expr": e["expr"][name]} for e in element["pool"]]
        current = {"t": "vp", "d": element["d"], "pool": pool, "inp": element["inp"]}
        offered = vtree.offered(pool, cer["rc"])
        res = sut.call(direct, vtree.build_element(current), getattr(values, parent))
        what = (f"validation {round_number + 1} of 2 with one long-lived evaluator set: pool "
                f"{[(e['q'], e['expr']['s']) for e in pool]}, packages {table}, input {element['inp']!r}, segment {parent}, rc {cer['rc']}")  # fmt: skip
        if not res.ok:
            fail("raises", f"{what} raised {res!r}")
        judge(res.value.validation_result, current, offered, parent == "IS_FORBIDDEN", what)
        info["offered"] = len(offered)
    return info


def check(case):
    if "first" in case:
        return check_long_lived(case)
    direct, validate_segment, values = _api()
    element, cer, parent = case["element"], case["cer"], case["parent"]
    tree = {"groups": [], "table": case["table"]}
    offered = vtree.offered(element["pool"], cer["rc"])
    info = {"offered": len(offered), "pool": len(element["pool"])}
    # direct call
    vtree.setup(tree, cer)
    res = sut.call(direct, vtree.build_element(element), getattr(values, parent))
    what = f"validate_data_element_valuepool(pool {[(e['q'], e['expr']['s']) for e in element['pool']]}, input {element['inp']!r}, segment {parent}, rc {cer['rc']})"
    if not res.ok:
        fail("raises", f"{what} raised {res!r}")
    if res.value.discriminator != element["d"]:
        fail("discriminator", f"{what}: result for {res.value.discriminator!r}")
    judge(res.value.validation_result, element, offered, parent == "IS_FORBIDDEN", what)
    # through a segment whose own expression gives the parent status
    segment_expr = {"IS_REQUIRED": "Muss", "IS_OPTIONAL": "Kann", "IS_FORBIDDEN": "Muss [1] X [1]"}[parent]
    seg = {"d": "S", "expr": {"s": segment_expr, "parts": []}, "des": [element]}
    vtree.setup(tree, cer)
    res = sut.call(validate_segment, vtree.build_segment(seg))
    if not res.ok:
        if parent == "IS_FORBIDDEN" and res.is_a(NotImplementedError):
            return info  # the artificial forbidden segment is undetermined under this assignment
        fail("raises", f"validate_segment around {what} raised {res!r}")
    rows = res.value
    if parent == "IS_FORBIDDEN":
        if len(rows) != 1:
            fail("forbidden-parent", f"validate_segment of a forbidden segment reported {vtree.result_rows(rows)}")
        return info
    if len(rows) != 2 or rows[1].discriminator != element["d"]:
        fail("discriminator", f"validate_segment reported {vtree.result_rows(rows)}")
    judge(rows[1].validation_result, element, offered, False, "via validate_segment: " + what)
    return info


def classify(case, info):
    if "first" in case:
        pool = [{"q": e["q"], "expr": e["expr"]["second"]} for e in case["element"]["pool"]]
        offered = vtree.offered(pool, case["second"]["cer"]["rc"])
        changed = vtree.offered([{"q": e["q"], "expr": e["expr"]["first"]} for e in case["element"]["pool"]], case["first"]["cer"]["rc"]) != offered
        labels = ["long-lived-evaluators", "parent=" + case["parent"]]
        if changed:
            labels.append("offer-changes-between-validations")
        return labels, changed
    element = case["element"]
    labels = ["parent=" + case["parent"], f"pool={info['pool']}"]
    offered = vtree.offered(element["pool"], case["cer"]["rc"])
    entered = element["inp"]
    if not entered:
        labels.append("input=absent-or-empty")
    elif entered in offered:
        labels.append("input=offered")
    elif entered in [e["q"] for e in element["pool"]]:
        labels.append("input=in-pool-not-offered")
    else:
        labels.append("input=foreign")
    if entered in offered and any(e["q"] == entered and vtree.meaning(e).strip() == "" for e in element["pool"]):
        labels.append("entered-value-has-blank-meaning")
    if any(e["expr"].get("fault") for e in element["pool"]):
        labels.append("with-invalid-entry")
    if len({e["q"] for e in element["pool"]}) != len(element["pool"]):
        labels.append("duplicate-qualifier")
    proper = 0 < len(offered) < len({e["q"] for e in element["pool"]})
    nothing = not offered and case["parent"] != "IS_FORBIDDEN"
    if proper:
        labels.append("proper-subset-offered")
    if nothing:
        labels.append("nothing-offered")
    return labels, (len(element["pool"]) > 1 and proper) or nothing


def strategy(tier):  # pylint:disable=unused-argument
    @st.composite
    def build_long_lived(draw):
        # the same written expressions, but the packages they use are defined differently in the two rounds
        tables = [draw(vtree.package_table()) for _ in range(2)]
        qualifiers = draw(st.lists(st.sampled_from(vtree.QUALIFIERS), min_size=2, max_size=5, unique=True))
        pool = []
        for qualifier in qualifiers:
            body = draw(st.sampled_from(["pkg", "pkg", "rc-and-pkg", "plain"]))
            key = draw(st.sampled_from(vtree.PACKAGES))
            rc = draw(st.sampled_from(vtree.RC))
            indicator = draw(gen.indicator_text(["X", "Muss", "M", "Kann"]))
            variants = {}
            for name, (_, asts) in zip(("first", "second"), tables):
                if body == "pkg":
                    text, ast = f"{indicator} [{key}] ", asts[key]
                elif body == "rc-and-pkg":
                    text, ast = f"{indicator} [{rc}] U [{key}] ", ["and", [["rc", rc], asts[key]]]
                else:
                    text, ast = f"{indicator} [{rc}] ", ["rc", rc]
                variants[name] = {"s": text, "parts": [[indicator, ast]]}
            pool.append(vtree.with_meaning(draw, {"q": qualifier, "expr": variants}))
        entered = draw(st.sampled_from([None, "", "Q", draw(st.sampled_from(gen.FOREIGN_TEXTS))] + qualifiers + qualifiers))
        rounds = {}
        for name, (table, _) in zip(("first", "second"), tables):
            rounds[name] = {"cer": draw(vtree.g_cer(weights=draw(st.sampled_from(["FU", "FFU", "FUK"])))), "table": table}
        return {"element": {"t": "vp", "d": "V", "pool": pool, "inp": entered}, "parent": draw(st.sampled_from(["IS_REQUIRED", "IS_OPTIONAL"])), **rounds}

    @st.composite
    def build(draw):
        if draw(st.sampled_from(range(4))) == 0:
            return draw(build_long_lived())
        table, table_asts = draw(vtree.package_table())
        qualifiers = draw(st.lists(st.sampled_from(vtree.QUALIFIERS), min_size=1, max_size=5, unique=True))
        if len(qualifiers) >= 2 and draw(st.sampled_from(range(5))) == 0:
            # the same qualifier twice, with different expressions (maus allows it, e.g. after replace_value_pool)
            qualifiers.insert(draw(st.integers(0, len(qualifiers))), draw(st.sampled_from(qualifiers)))
        texts = {q: vtree.with_meaning(draw, {"q": q}) for q in set(qualifiers)}
        pool = [{**texts[q], "expr": draw(vtree.node_expression(table_asts))} for q in qualifiers]
        if len(pool) >= 2 and draw(st.sampled_from(range(5))) == 0:
            # an entry with a well-formed but invalid expression is selectable whatever the entries around it are (C16)
            position = draw(st.sampled_from(range(len(pool))))
            invalid = draw(st.sampled_from(["X [1] O [500]", "Muss [499] X [901]", "X [500] O [901]", "M [2000] U ([1] O [900])"]))
            pool[position] = {**pool[position], "expr": {"s": invalid, "parts": [], "fault": True}}
        cer = draw(vtree.g_cer(weights=draw(st.sampled_from(["FUK", "FFU", "UUF", "U", "FUUK"]))))
        kind = draw(st.sampled_from(["none", "empty", "pool", "pool", "pool", "foreign"]))
        entered = {"none": None, "empty": "", "foreign": draw(st.sampled_from(gen.FOREIGN_TEXTS))}.get(kind)
        if kind == "pool":
            entered = draw(st.sampled_from(qualifiers))
        element = {"t": "vp", "d": "V", "pool": pool, "inp": entered}
        parent = draw(st.sampled_from(["IS_REQUIRED", "IS_REQUIRED", "IS_OPTIONAL", "IS_FORBIDDEN"]))
        return {"element": element, "cer": cer, "parent": parent, "table": table}

    return build()


def sample(case):
    if "first" in case:
        return {"pool": [(e["q"], e["expr"]["first"]["s"]) for e in case["element"]["pool"]], "entered": case["element"]["inp"],
                "packages_first": case["first"]["table"], "packages_second": case["second"]["table"]}  # fmt: skip
    return {"pool": [(e["q"], e["expr"]["s"]) for e in case["element"]["pool"]], "entered": case["element"]["inp"],
            "parent": case["parent"], "rc": case["cer"]["rc"]}  # fmt: skip


STAGES = [
    Stage(name="pools", kind="hyp", check=check, classify=classify, strategy=strategy,
          budget={"quick": 200, "thorough": 3000},
          floors={"proper-subset-offered": 0.1, "nothing-offered": 0.005, "input=offered": 0.1,
                  "input=in-pool-not-offered": 0.035, "input=foreign": 0.05, "offer-changes-between-validations": 0.03,
                  "duplicate-qualifier": 0.05},
          sample=sample),
    large.stage("large-pools", large.c17_check, large.c17_cases),
]  # fmt: skip
