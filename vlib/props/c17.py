"""
C17 - Value pools offer exactly the admissible qualifiers and judge input by them.

Value pools (1-5 entries with valid AHB expressions) x entered inputs (absent, empty, offered, in the pool but not
offered, foreign) x parent statuses x content evaluation results.  The oracle is written from the statement: offered =
qualifiers whose own expression evaluates to fulfilled (a single-entry pool offers its entry), in pool order.
"""

from hypothesis import strategies as st

from vlib import ref, sut, vtree
from vlib.core import Stage, fail

ID = "C17"
MANIFEST = {
    "category": "exploration",
    "text": "Generated-input search against an oracle written from the statement: value pools of 1-5 entries (valid AHB expressions of all documented forms, incl. packages) x entered input in {absent, empty, an offered qualifier, a pool qualifier that is not offered, a foreign value} x parent status in {required, optional, forbidden} x content evaluation results incl. UNKNOWN, through validate_data_element_valuepool directly and through validate_segment. possible_values must list exactly the qualifiers whose own expression is fulfilled, in pool order, with their meanings; nothing offered or forbidden segment => IS_FORBIDDEN with nothing offered; entered value offered => ..._AND_FILLED and not flagged; entered non-empty value not offered => flagged (format_validation_fulfilled False) and ..._AND_EMPTY; no input => ..._AND_EMPTY, not flagged.",
    "note": "Trusted: the reference evaluation of entry expressions (vlib/ref.py) and the oracle in this module. Whether a non-forbidden pool is reported REQUIRED or OPTIONAL is not constrained by the statement and not checked.",
    "technique": "property-based testing against a reference predicate (offered set computed by the reference evaluator)",
}
LEVEL = "exploration"
RULE = (
    "value pool x entered input x parent status x content evaluation result; non-trivial = multi-entry pool of which "
    "a proper non-empty subset is offered, or nothing is offered under a non-forbidden parent; distinct by case"
)
ASSUMPTIONS = [
    "entry expressions are valid (C16 covers invalid ones); qualifiers are unique within a pool (maus validates that shape)",
    "REQUIRED vs OPTIONAL in the reported status of a non-forbidden pool is unconstrained",
]
BOUNDS = {"quick": {}, "thorough": {}}


def _api():
    from ahbicht.models.validation_values import RequirementValidationValue
    from ahbicht.validation.validation import validate_data_element_valuepool, validate_segment

    return validate_data_element_valuepool, validate_segment, RequirementValidationValue


def judge(result, element, offered, parent_forbidden, what):
    """result: DataElementValidationResult"""
    status = str(result.requirement_validation)
    possible = list((result.possible_values or {}).items())
    entered = element["inp"]
    if parent_forbidden:
        if status != "IS_FORBIDDEN":
            fail("forbidden-parent", f"{what}: segment forbidden but the pool is reported {status}")
        if possible:
            fail("forbidden-parent", f"{what}: segment forbidden but values {possible} are offered")
        return
    expected_possible = [(q, "meaning of " + q) for q in offered]
    if possible != expected_possible:
        fail("offered", f"{what}: offered values {possible}, expected exactly {expected_possible} (pool order)")
    if not offered:
        if status != "IS_FORBIDDEN":
            fail("nothing-offered", f"{what}: nothing is offered but the element is reported {status} instead of forbidden")
        return
    if entered in offered:
        if not status.endswith("_AND_FILLED"):
            fail("accepted-value", f"{what}: entered {entered!r} is offered but status is {status}")
        if result.format_validation_fulfilled is not True:
            fail("accepted-value", f"{what}: entered {entered!r} is offered but it was flagged")
    elif entered:
        if result.format_validation_fulfilled is not False:
            fail("unexpected-value", f"{what}: entered {entered!r} is not offered ({offered}) but was not flagged")
        if not status.endswith("_AND_EMPTY"):
            fail("unexpected-value", f"{what}: entered {entered!r} is not offered but status is {status}, not ..._AND_EMPTY")
    else:
        if not status.endswith("_AND_EMPTY"):
            fail("no-input", f"{what}: no input but status is {status}")
        if result.format_validation_fulfilled is not True:
            fail("no-input", f"{what}: no input but the element was flagged")


def check(case):
    direct, validate_segment, values = _api()
    element, cer, parent = case["element"], case["cer"], case["parent"]
    tree = {"groups": [], "table": case["table"]}
    offered = vtree.offered(element["pool"], cer["rc"])
    info = {"offered": len(offered), "pool": len(element["pool"])}
    # direct call
    vtree.setup(tree, cer)
    res = sut.call(direct, vtree.build_element(element), getattr(values, parent))
    what = f"validate_data_element_valuepool(pool {[(e['q'], e['expr']['s']) for e in element['pool']]}, input {element['inp']!r}, segment {parent}, rc {cer['rc']})"
    if not res.ok:
        fail("raises", f"{what} raised {res!r}")
    if res.value.discriminator != element["d"]:
        fail("discriminator", f"{what}: result for {res.value.discriminator!r}")
    judge(res.value.validation_result, element, offered, parent == "IS_FORBIDDEN", what)
    # through a segment whose own expression gives the parent status
    segment_expr = {"IS_REQUIRED": "Muss", "IS_OPTIONAL": "Kann", "IS_FORBIDDEN": "Muss [1] X [1]"}[parent]
    seg = {"d": "S", "expr": {"s": segment_expr, "parts": []}, "des": [element]}
    vtree.setup(tree, cer)
    res = sut.call(validate_segment, vtree.build_segment(seg))
    if not res.ok:
        if parent == "IS_FORBIDDEN" and res.is_a(NotImplementedError):
            return info  # the artificial forbidden segment is undetermined under this assignment
        fail("raises", f"validate_segment around {what} raised {res!r}")
    rows = res.value
    if parent == "IS_FORBIDDEN":
        if len(rows) != 1:
            fail("forbidden-parent", f"validate_segment of a forbidden segment reported {vtree.result_rows(rows)}")
        return info
    if len(rows) != 2 or rows[1].discriminator != element["d"]:
        fail("discriminator", f"validate_segment reported {vtree.result_rows(rows)}")
    judge(rows[1].validation_result, element, offered, False, "via validate_segment: " + what)
    return info


def classify(case, info):
    element = case["element"]
    labels = ["parent=" + case["parent"], f"pool={info['pool']}"]
    offered = vtree.offered(element["pool"], case["cer"]["rc"])
    entered = element["inp"]
    if not entered:
        labels.append("input=absent-or-empty")
    elif entered in offered:
        labels.append("input=offered")
    elif entered in [e["q"] for e in element["pool"]]:
        labels.append("input=in-pool-not-offered")
    else:
        labels.append("input=foreign")
    proper = 0 < len(offered) < len(element["pool"])
    nothing = not offered and case["parent"] != "IS_FORBIDDEN"
    if proper:
        labels.append("proper-subset-offered")
    if nothing:
        labels.append("nothing-offered")
    return labels, (len(element["pool"]) > 1 and proper) or nothing


def strategy(tier):  # pylint:disable=unused-argument
    @st.composite
    def build(draw):
        table, table_asts = draw(vtree.package_table())
        qualifiers = draw(st.lists(st.sampled_from(vtree.QUALIFIERS), min_size=1, max_size=5, unique=True))
        pool = [{"q": q, "expr": draw(vtree.node_expression(table_asts))} for q in qualifiers]
        cer = draw(vtree.g_cer(weights=draw(st.sampled_from(["FUK", "FFU", "UUF", "U", "FUUK"]))))
        kind = draw(st.sampled_from(["none", "empty", "pool", "pool", "pool", "foreign"]))
        entered = {"none": None, "empty": "", "foreign": draw(st.sampled_from(["Q", "zz", "a", " A"]))}.get(kind)
        if kind == "pool":
            entered = draw(st.sampled_from(qualifiers))
        element = {"t": "vp", "d": "V", "pool": pool, "inp": entered}
        parent = draw(st.sampled_from(["IS_REQUIRED", "IS_REQUIRED", "IS_OPTIONAL", "IS_FORBIDDEN"]))
        return {"element": element, "cer": cer, "parent": parent, "table": table}

    return build()


def sample(case):
    return {"pool": [(e["q"], e["expr"]["s"]) for e in case["element"]["pool"]], "entered": case["element"]["inp"],
            "parent": case["parent"], "rc": case["cer"]["rc"]}  # fmt: skip


STAGES = [
    Stage(name="pools", kind="hyp", check=check, classify=classify, strategy=strategy,
          budget={"quick": 200, "thorough": 3000},
          floors={"proper-subset-offered": 0.15, "nothing-offered": 0.02, "input=offered": 0.15,
                  "input=in-pool-not-offered": 0.08, "input=foreign": 0.08},
          sample=sample),
]  # fmt: skip
