"""
C02 - Parsers accept exactly the documented language; all else is a SyntaxError.

Three classes of strings (well-formed by construction, near misses by character-level edits, arbitrary text) are
given to the three parsing entry points and to the validity check; an independent recogniser written from the
statement (vlib/ref.py: accepts_condition / accepts_ahb_lenient) says what must be accepted and what must be rejected.
"""

import os
import re
from contextvars import ContextVar

from hypothesis import strategies as st

from vlib import gen, ref, sut
from vlib.core import Stage, fail

ID = "C02"
MANIFEST = {
    "category": "exploration",
    "text": "Generated-input search over strings: well-formed expressions rendered from ASTs (40%), near misses made by 1-3 character edits of them (40%) and arbitrary text incl. exotic code points (20%) go through parse_condition_expression_to_tree, the AHB parser, the resolver and is_valid_expression. A hand-written tokenizer + recursive-descent recogniser decides accept/reject for the condition parser (both directions); for the resolver, strict C09 forms must be accepted, anything returned must be fully resolved and acceptable to a lenient AHB recogniser whose condition parts pass the strict recogniser, and everything else must raise SyntaxError; no other exception type may escape anywhere. One slice is enumerated completely: every string of length <= 4 (thorough: <= 5) over the 12-character alphabet '[]()1PUB. MX' (22 621 / 271 453 strings) through all entry points. The thorough tier adds a coverage-guided atheris stage driving the same oracle. Near misses also include word-level edits: one run of letters replaced by a word that is nearly a modal mark (Moll, Kuss, Mus, Musss ...). Stage deep (plain enumeration, outside Hypothesis, which raises the recursion limit): well-formed expressions of five shapes nested 60-600 (thorough: 900) levels deep, by construction, through the condition parser (twice), the AHB parser and the resolver; nothing may raise. One known finding is excluded by construction and counted: RecursionError out of the resolver from 330 levels on (known_findings.json). Well-formed strings that use packages are additionally resolved with resolve_packages=True under drawn package tables (well-formed, malformed, missing bodies): malformed body => SyntaxError, missing => NotImplementedError, else a tree of Trees and Tokens only. A seventh of the near misses are the shortest expressions (one or two atoms, with or without indicator) with one or two characters inserted that Python's \\s / isspace accept but the grammars' whitespace does not (VT, FS-US, NEL, NBSP, U+1680, U+2000-200A, U+2028/9, U+202F, U+205F, U+3000). is_valid_expression is called with its parameters passed by name for every second string.",
    "note": "Trusted: the reference recogniser in vlib/ref.py (cross-validated against the parser on 10^5 strings with zero disagreements on the unchanged tree), Hypothesis, atheris. Two narrow unspecified zones where only the no-foreign-exception clause is checked: strings that are well-formed only if a repeatability may be written with non-ASCII decimal digits (the grammar's own \\d), and AHB strings containing U+017F / U+212A, which re.IGNORECASE folds onto the s / k of the modal marks. Keys and package keys must be ASCII integers. Process configuration by shard (vlib/sut.py; recorded in replay files): plain / parse caches preheated beyond their size / warnings attributed to ahbicht raised as errors / logging fully enabled with every record rendered; one event loop per process or a new one per call; five process time zones; the hash seed is the shard number; namesakes of ahbicht's marshmallow schema classes are registered. Every registry of evaluators / providers / resolvers that the harness builds (sut.configure) also holds one of each kind that names no EDIFACT format and no format version; these must never be asked.",
    "technique": "property-based testing / fuzzing of the parsers against an independent reference recogniser (differential, both directions)",
}
LEVEL = "exploration"
RULE = (
    "strings from three classes (well-formed rendering of a generated AST / 1-3 character edits of one / arbitrary "
    "text over a condition-expression-biased alphabet plus exotic code points) are judged by a reference recogniser; "
    "non-trivial = a well-formed or near-miss string of at least 3 tokens (or >= 6 characters if it does not "
    "tokenise); distinct by string"
)
ASSUMPTIONS = [
    "unspecified zones (only 'no foreign exception' is checked): a repeatability written with non-ASCII decimal digits; AHB strings containing U+017F/U+212A",
    "AHB strings that are not in a strict C09 form but that a lenient reading accepts may be accepted or rejected",
    "repeatabilities are syntactically \\d+..[1-9]\\d*; their numeric sanity (n<=m) is not part of parsing",
]
BOUNDS = {"quick": {"max_atoms": 8}, "thorough": {"max_atoms": 14}}

ALPHABET = "[]()UOXuox∧∨⊻0123456789P.B MSKmusolkan\t\n"
EXOTIC = ["\x00", "\x0b", "\x1c", "\x85", "\xa0", "\u0663", "\u00b9", "\uff12", "\u0301", "\u200b", "\u017f", "\u212a", "\u00e9", "\u20ac", "\U0001f600", "p", "b", "\u00df", "|", "&", "{", "}", "-", ","]  # fmt: skip

_CER = ContextVar("c02_cer", default=None)
_SETUP = []


def _api():
    from ahbicht.content_evaluation import is_valid_expression
    from ahbicht.expressions.ahb_expression_parser import (
        parse_ahb_expression_to_single_requirement_indicator_expressions as parse_ahb,
    )
    from ahbicht.expressions.condition_expression_parser import parse_condition_expression_to_tree as parse_cond
    from ahbicht.expressions.expression_resolver import parse_expression_including_unresolved_subexpressions as resolve

    if not _SETUP:
        sut.setup_cer_based(_CER)
        _SETUP.append(True)
    return parse_cond, parse_ahb, resolve, is_valid_expression


def _unresolved_tokens(tree):
    from lark import Token, Tree

    found = []

    def walk(node):
        if isinstance(node, Tree):
            for child in node.children:
                walk(child)
        elif isinstance(node, Token):
            if node.type == "CONDITION_EXPRESSION":
                found.append(str(node))
        elif not isinstance(node, str):
            found.append(repr(node))

    walk(tree)
    return found


def check(case):
    from lark import Tree

    parse_cond, parse_ahb, resolve, is_valid_expression = _api()
    failed = sut.preheat_parse_caches()
    if failed is not None:
        fail("cond-foreign", f"a parser raised {failed!r} for a well-formed string while the caches were being filled")
    text = case["s"]
    kind = case["kind"]  # "cond" | "ahb" | "other": what the generator built; only "well-formed" cases use it
    wellformed = case["class"] == "wellformed"
    cond_ok = ref.accepts_condition(text)
    cond_zone = ref.condition_zone(text)  # well-formed only if a repeatability may use non-ASCII digits
    unspecified = ref.unspecified_zone(text)  # U+017F / U+212A: matters for the case-insensitive modal marks only
    info = {"cond_ok": cond_ok, "zone": cond_zone or unspecified}

    # (1) condition parser: tree iff the recogniser accepts, otherwise SyntaxError
    res = sut.call(parse_cond, text)
    if res.ok:
        if not isinstance(res.value, Tree):
            fail("cond-foreign", f"condition parser returned {type(res.value).__name__} for {text!r}")
        if not cond_ok and not cond_zone:
            fail("cond-accepts-malformed", f"condition parser accepted {text!r}, which is not a documented expression")
    else:
        if not res.is_a(SyntaxError):
            fail("cond-foreign", f"condition parser raised {res!r} for {text!r} (only SyntaxError may escape)")
        if cond_ok:
            fail("cond-rejects-wellformed", f"condition parser rejected the well-formed {text!r}")
    info["cond"] = res.ok

    # (2) AHB parser: tree or SyntaxError, strict forms accepted, nothing without an indicator structure accepted
    res = sut.call(parse_ahb, text)
    if res.ok:
        if not isinstance(res.value, Tree):
            fail("ahb-foreign", f"AHB parser returned {type(res.value).__name__} for {text!r}")
        if not unspecified and not ref.split_ahb_lenient(text, limit=1, any_space=True):
            fail("ahb-accepts-malformed", f"AHB parser accepted {text!r}, which has no indicator structure")
    else:
        if not res.is_a(SyntaxError):
            fail("ahb-foreign", f"AHB parser raised {res!r} for {text!r} (only SyntaxError may escape)")
        if wellformed and kind == "ahb":
            fail("ahb-rejects-wellformed", f"AHB parser rejected the well-formed {text!r}")
    info["ahb"] = res.ok

    # (3) resolver
    ahb_ok = None
    res = sut.call(resolve, text, False, case.get("replace_time", True))
    if res.ok:
        if not isinstance(res.value, Tree):
            fail("resolver-foreign", f"resolver returned {type(res.value).__name__} for {text!r}")
        left = _unresolved_tokens(res.value)
        if left:
            fail("resolver-unresolved", f"resolver returned a tree for {text!r} that still contains {left!r}")
        if not unspecified and not cond_ok and not cond_zone:
            ahb_ok = ref.accepts_ahb_lenient(text, unicode_rep=True)
            if not ahb_ok:
                fail("resolver-accepts-malformed", f"resolver accepted the malformed {text!r}")
    else:
        if not res.is_a(SyntaxError):
            fail("resolver-foreign", f"resolver raised {res!r} for {text!r} (only SyntaxError may escape)")
        if wellformed:
            fail("resolver-rejects-wellformed", f"resolver rejected the well-formed {text!r}")
        if cond_ok:
            fail("resolver-rejects-wellformed", f"resolver rejected the well-formed condition expression {text!r}")
    info["resolver"] = res.ok

    # (3b) the resolver with resolve_packages=True: the expressions a package resolver hands back are strings that go
    # through the condition parser as well - a malformed one must surface as SyntaxError, not inside the returned tree
    table = case.get("packages")
    if table is not None and res.ok:
        from ahbicht.expressions.package_expansion import DictBasedPackageResolver

        resolver = DictBasedPackageResolver({k: v for k, v in table.items() if v is not None})
        resolver.edifact_format, resolver.edifact_format_version = sut.FMT, sut.VER
        sut.configure([resolver])
        used = [key for key in dict.fromkeys(_PACKAGE_USE.findall(text))]
        malformed = [key for key in used if table.get(key) is not None and not ref.accepts_condition(table[key])]
        missing = [key for key in used if table.get(key) is None]
        expanded = sut.call(resolve, text, True, case.get("replace_time", True))
        what = f"resolver(resolve_packages=True) for {text!r} with packages {({k: table.get(k) for k in used})!r}"
        if expanded.ok:
            left = _unresolved_tokens(expanded.value)
            if left:
                fail("resolver-unresolved", f"{what} returned a tree that contains {left!r}"[:700])
            if malformed:
                fail("resolver-accepts-malformed", f"{what} returned a tree although {malformed} are malformed")
        elif expanded.is_a(SyntaxError):
            if not malformed:
                fail("resolver-rejects-wellformed", f"{what} raised {expanded!r}"[:700])
        elif not (expanded.is_a(NotImplementedError) and missing):
            fail("resolver-foreign", f"{what} raised {expanded!r} (only SyntaxError, or NotImplementedError for an unknown package)"[:700])
        info["packages"] = "malformed" if malformed else ("missing" if missing else ("expanded" if used else "none-used"))
        sut.setup_hardcoded(sut.make_cer())

    # (4) validity check: reports what the resolver rejects as (False, message), never raises for it
    if not res.ok:
        # the two parameters are documented by name; every second call passes them by name
        if len(text) % 2:
            verdict = sut.call(is_valid_expression, expression_or_tree=text, content_evaluation_result_setter=_CER.set)
        else:
            verdict = sut.call(is_valid_expression, text, _CER.set)
        if not verdict.ok:
            fail("validity-raises", f"is_valid_expression raised {verdict!r} for the malformed {text!r}")
        value = verdict.value
        if not (isinstance(value, tuple) and len(value) == 2 and value[0] is False and isinstance(value[1], str) and value[1]):
            fail("validity-verdict", f"is_valid_expression returned {value!r} for the malformed {text!r}")
    return info


_PACKAGE_USE = re.compile(r"\[[ \t\f\r\n]*([0-9]+P)")
PACKAGE_BODIES = ["[1]", "[2] U [3]", "([4] O [5])[901]", "[UB1]", "[6]", "[2] U", "[", "[1]]", "[2] U U [3]", "1", "[7] Q [8]", "[8P", "U [2]", "X", "Soll", "Muss [1] U [2]", "O [3] U [4]", None]


def classify(case, info):
    text = case["s"]
    labels = ["class=" + case["class"], "kind=" + case["kind"]]
    if info.get("packages"):
        labels.append("packages=" + info["packages"])
    labels.append("cond-accepted" if info["cond"] else "cond-rejected")
    labels.append("ahb-accepted" if info["ahb"] else "ahb-rejected")
    labels.append("resolver-accepted" if info["resolver"] else "resolver-rejected")
    if info.get("zone"):
        labels.append("unspecified-zone")
    toks = ref.tokenize(text)
    size_ok = len(toks) >= 3 if toks is not None else len(text) >= 6
    nontrivial = case["class"] in ("wellformed", "nearmiss") and size_ok
    return labels, nontrivial


# ------------------------------------------------------------------------------------------------------- generators


@st.composite
def wellformed(draw, max_atoms):
    """(kind, text): a rendered condition expression or a strict-form AHB expression"""
    if draw(st.integers(0, 1)) == 0:
        ast = draw(gen.g_expr(max_atoms=max_atoms))
        return "cond", gen.render(draw, ast, spaces=draw(st.booleans()), redundant=draw(st.booleans()))
    shape = draw(gen.g_ahb_shape())
    parts = []
    for indicator, has_cond in shape:
        cond = None
        if has_cond:
            ast = draw(gen.g_expr(max_atoms=max(1, max_atoms // 2)))
            cond = gen.render(draw, ast, spaces=draw(st.booleans()), redundant=False, top=False)
        parts.append((indicator, cond))
    return "ahb", gen.render_ahb(draw, parts)


_EDITS = ["delete", "insert", "replace", "transpose", "duplicate", "drop-bracket", "exotic"]


def mutate(draw, text):
    chars = list(text)
    for _ in range(draw(st.integers(1, 3))):
        edit = draw(st.sampled_from(_EDITS))
        if not chars:
            chars = [draw(st.sampled_from(ALPHABET))]
            continue
        pos = draw(st.integers(0, len(chars) - 1))
        if edit == "delete":
            del chars[pos]
        elif edit == "insert":
            chars.insert(pos, draw(st.sampled_from(ALPHABET)))
        elif edit == "replace":
            chars[pos] = draw(st.sampled_from(ALPHABET))
        elif edit == "transpose" and pos + 1 < len(chars):
            chars[pos], chars[pos + 1] = chars[pos + 1], chars[pos]
        elif edit == "duplicate":
            end = min(len(chars), pos + draw(st.integers(1, 4)))
            chars[pos:pos] = chars[pos:end]
        elif edit == "drop-bracket":
            idx = [i for i, c in enumerate(chars) if c in "[]()"]
            if idx:
                del chars[idx[pos % len(idx)]]
        elif edit == "exotic":
            chars.insert(pos, draw(st.sampled_from(EXOTIC)))
    return "".join(chars)


ATOM_BODIES = ["", " ", "P", "UB", "UB0", "UB4", "UB9", "UB12", "ub1", "Ub2", "UB 1", "U B1", "1p", "1PP", "P1", "1 P", "1P0..0",
               "1P..1", "1P1.1", "1P1...2", "1P1..", "1P0..01", "1P1..2..3", "0..1", "1..2P", "-1", "+1", "1.0", "1,2", "1 2",
               "UB1P", "1PUB1", "1P1..2 3", "UB1 0..1", "00", "007P00..7", "1P0..1"]  # fmt: skip
_ATOM_SPAN = __import__("re").compile(r"\[[^\[\]]*\]")


def atom_edit(draw, text):
    """replace the inside of one [..] atom by a (mostly malformed) body"""
    spans = [m.span() for m in _ATOM_SPAN.finditer(text)]
    if not spans:
        return text
    start, end = draw(st.sampled_from(spans))
    if draw(st.booleans()):
        body = draw(st.sampled_from(ATOM_BODIES))
    else:
        body = draw(st.text(alphabet=st.sampled_from("0123456789PUB. p"), max_size=7))
    return text[: start + 1] + body + text[end - 1 :]


_WORD_SPAN = re.compile(r"[A-Za-z\u017f]+")
NEAR_WORDS = [
    # an initial of one modal mark with the tail of another one, truncated / extended / doubled marks, look-alikes
    "Moll", "Mann", "Suss", "Sann", "Kuss", "Koll", "moll", "KUSS", "Mus", "Mu", "Sol", "So", "Kan", "Ka", "Musss", "Solll",
    "Kannn", "Mussoll", "MM", "SK", "Mu\u00df", "Nuss", "Darf", "Y", "XO", "UU", "Ms", "Sl", "Kn", "M.", "Muss.", "Mus s",
]  # fmt: skip


def word_edit(draw, text):
    """replace one run of letters (an indicator, or an operator letter) by a word that is nearly a modal mark"""
    spans = [m.span() for m in _WORD_SPAN.finditer(text)]
    if not spans:
        return text
    start, end = draw(st.sampled_from(spans))
    return text[:start] + draw(st.sampled_from(NEAR_WORDS)) + text[end:]


# characters that Python's \s and str.isspace() accept but the grammars' whitespace (blank, tab, form feed, CR, LF) does not
LOOKALIKE_SPACES = ["\x0b", "\x1c", "\x1d", "\x1e", "\x1f", "\x85", "\xa0", "\u1680", "\u2000", "\u2003", "\u2009", "\u200a",
                    "\u2028", "\u2029", "\u202f", "\u205f", "\u3000"]  # fmt: skip


def space_edit(draw, text):
    """insert one or two such characters anywhere (before, after, inside the brackets, next to an indicator)"""
    chars = list(text)
    for _ in range(draw(st.integers(1, 2))):
        chars.insert(draw(st.integers(0, len(chars))), draw(st.sampled_from(LOOKALIKE_SPACES)))
    return "".join(chars)


def strategy(tier):
    max_atoms = BOUNDS[tier]["max_atoms"]

    @st.composite
    def build(draw):
        pick = draw(st.sampled_from(range(10)))
        replace_time = draw(st.booleans())
        if pick < 4:
            kind, text = draw(wellformed(max_atoms))
            case = {"class": "wellformed", "kind": kind, "s": text, "replace_time": replace_time}
            used = list(dict.fromkeys(_PACKAGE_USE.findall(text)))
            if used and draw(st.booleans()):
                bodies = PACKAGE_BODIES[:5] if draw(st.booleans()) else PACKAGE_BODIES
                case["packages"] = {key: draw(st.sampled_from(bodies)) for key in used}
            return case
        if pick < 8:
            how = draw(st.sampled_from(range(7)))
            if how == 6:
                # the shortest expressions (a single key above all) with a look-alike of a blank somewhere
                kind, text = draw(wellformed(draw(st.sampled_from([1, 1, 2]))))
                return {"class": "nearmiss", "kind": kind, "s": space_edit(draw, text), "replace_time": replace_time}
            kind, text = draw(wellformed(max(2, max_atoms // 2)))
            mutated = atom_edit(draw, text) if how < 2 else (word_edit(draw, text) if how == 2 else mutate(draw, text))
            if mutated == text:
                return {"class": "wellformed", "kind": kind, "s": text, "replace_time": replace_time}
            return {"class": "nearmiss", "kind": kind, "s": mutated, "replace_time": replace_time}
        if draw(st.booleans()):
            text = draw(st.text(alphabet=st.sampled_from(ALPHABET + "".join(EXOTIC)), max_size=14))
        else:
            text = draw(st.text(max_size=12))
        return {"class": "arbitrary", "kind": "other", "s": text, "replace_time": replace_time}

    return build()


# ------------------------------------------------------------- bounded-exhaustive stage: all short strings

SMALL_ALPHABET = "[]()1PUB. MX"
SMALL_LENGTH = {"quick": 4, "thorough": 5}


def enumerate_small(tier, shard, nshards, seed):  # pylint:disable=unused-argument
    """one bulk case per (length, first two characters): every string over SMALL_ALPHABET up to the tier's length"""
    index = 0
    for first in SMALL_ALPHABET:
        for second in SMALL_ALPHABET:
            if index % nshards == shard:
                yield {"prefix": first + second, "max_length": SMALL_LENGTH[tier]}
            index += 1
    if shard == 0:
        yield {"prefix": "", "max_length": 1}


def check_small(case):
    import itertools

    from vlib.core import Violation

    prefix, max_length = case["prefix"], case["max_length"]
    count = accepted = 0
    sample = None
    lengths = range(0, 2) if not prefix else range(0, max_length - len(prefix) + 1)
    for extra in lengths:
        for tail in itertools.product(SMALL_ALPHABET, repeat=extra):
            text = prefix + "".join(tail)
            if not prefix and extra == 0:
                text = ""
            try:
                info = check({"class": "enumerated", "kind": "other", "s": text, "replace_time": True})
            except Violation as violation:
                raise Violation(violation.clause, violation.message, {"replay_stage": "strings", "replay_case": {
                    "class": "arbitrary", "kind": "other", "s": text, "replace_time": True}})  # fmt: skip
            count += 1
            if info["resolver"] or info["cond"]:
                accepted += 1
                sample = text
    return {"_bulk": {"evaluations": count, "nontrivial": accepted, "samples": [{"accepted": sample}] if sample else []}}


# ------------------------------------------------------------------------------------ deep nesting (by construction)

DEEP_SHAPES = ["right", "left", "brackets", "then-also", "mixed"]
DEEP_DEPTHS = {"quick": [60, 150, 230, 260, 320, 450, 600], "thorough": [60, 150, 230, 245, 260, 320, 380, 450, 600, 900]}
# Below this depth nothing may raise anywhere.  From about 400 levels on, lark's recursive Transformer inside the
# resolver exceeds the interpreter's recursion limit: known finding "deep:resolver-recursion" (known_findings.json).
RESOLVER_RECURSION_FROM = 330


def deep_expression(shape, depth):
    """a well-formed condition expression with `depth` levels of nesting - well-formed by construction"""
    ops = {"right": [" U "], "left": [" O "], "then-also": [""], "mixed": [" U ", " X ", "", " ∨ "]}.get(shape, [""])
    text = "[1]"
    for level in range(depth):
        op = ops[level % len(ops)]
        if shape == "brackets":
            text = f"({text})"
        elif shape == "left":
            text = f"({text}){op}[{level % 400 + 1}]"
        else:
            text = f"[{level % 400 + 1}]{op}({text})"
    return text


def tree_depth(tree):
    """nesting depth of a lark tree, iteratively"""
    from lark import Tree

    deepest, stack = 0, [(tree, 1)]
    while stack:
        node, depth = stack.pop()
        deepest = max(deepest, depth)
        stack.extend((child, depth + 1) for child in node.children if isinstance(child, Tree))
    return deepest


def check_deep(case):
    from lark import Tree

    from vlib.core import known_signatures

    parse_cond, parse_ahb, resolve, _ = _api()
    shape, depth = case["shape"], case["depth"]
    text = deep_expression(shape, depth)
    what = f"the well-formed expression of shape {shape!r} nested {depth} levels deep ({len(text)} characters)"
    info = {"known": 0}
    res = sut.call(parse_cond, text)
    if not res.ok or not isinstance(res.value, Tree):
        fail("deep-cond", f"condition parser did not return a tree for {what}: {res!r}"[:600])
    if shape != "brackets" and tree_depth(res.value) < depth:
        fail("deep-cond", f"condition parser returned a tree of depth {tree_depth(res.value)} for {what}")
    again = sut.call(parse_cond, text)  # from the cache
    if not again.ok:
        fail("deep-cond", f"second parse of {what} raised {again!r}"[:600])
    indicator = case.get("indicator", "Muss")
    res = sut.call(parse_ahb, f"{indicator} {text}")
    if not res.ok:
        fail("deep-ahb", f"AHB parser raised {res!r} for '{indicator} ' + {what}"[:600])
    for argument, label in ((text, "the condition expression"), (f"{indicator} {text}", "the AHB expression")):
        res = sut.call(resolve, argument, False, True)
        if res.ok:
            if _unresolved_tokens(res.value):
                fail("deep-resolver", f"resolver left {label} of {what} unresolved")
            continue
        if res.is_a(RecursionError) and depth >= RESOLVER_RECURSION_FROM and "deep:resolver-recursion" in known_signatures(ID):
            info["known"] += 1  # excluded by construction, counted; any other failure is still reported
            continue
        clause = "resolver-recursion" if res.is_a(RecursionError) and depth >= RESOLVER_RECURSION_FROM else "deep-resolver"
        fail(clause, f"resolver raised {res!r} for {label}: {what} (only SyntaxError may escape, and this one is well-formed)"[:700])
    return info


def signature(stage, case, clause):  # pylint:disable=unused-argument
    return f"{stage}:{clause}"


def enumerate_deep(tier, shard, nshards, seed):  # pylint:disable=unused-argument
    index = 0
    for depth in DEEP_DEPTHS[tier]:
        for shape in DEEP_SHAPES:
            if index % nshards == shard:
                yield {"shape": shape, "depth": depth, "indicator": ["Muss", "x", "soll", "K"][index % 4]}
            index += 1


def classify_deep(case, info):
    labels = ["shape=" + case["shape"], f"depth>={case['depth'] // 100 * 100}"]
    if info["known"]:
        labels.append("excluded:known-finding-resolver-recursion")
    return labels, case["depth"] >= 200


# ------------------------------------------------------------------------------- coverage-guided stage (atheris)


def enumerate_fuzz(tier, shard, nshards, seed):  # pylint:disable=unused-argument
    yield {"fuzz": True, "seed": seed * 1000 + shard, "runs": FUZZ_RUNS, "shard": shard}


FUZZ_RUNS = int(os.environ.get("VERIF_FUZZ_RUNS", "12000"))


def check_fuzz(case):
    """
    Two libFuzzer campaigns per shard driving the strategy and oracle of stage `strings` through
    hypothesis.fuzz_one_input: one from an empty corpus, one that starts from the first campaign's corpus with another
    seed.  atheris is optional: if it cannot be imported the stage reports 'skipped' and nothing else.
    """
    import json
    import shutil
    import subprocess
    import sys
    import tempfile

    root = os.path.dirname(os.path.dirname(os.path.dirname(os.path.abspath(__file__))))
    deps = os.path.join(root, ".deps")
    env = dict(os.environ, PYTHONPATH=deps + os.pathsep + root, PYTHONHASHSEED="0", VERIF_FUZZ_TIER="thorough")
    probe = subprocess.run([sys.executable, "-c", "import atheris"], env=env, capture_output=True)
    if probe.returncode != 0:
        return {"skipped": True, "_bulk": {"evaluations": 0, "nontrivial": 0}}
    work = tempfile.mkdtemp(prefix="verif-c02-fuzz-")
    total = {"executions": 0, "nontrivial": 0, "labels": {}, "samples": []}
    try:
        corpus = os.path.join(work, "corpus")
        os.mkdir(corpus)
        for phase, seed in (("empty-corpus", case["seed"]), ("seeded-corpus", case["seed"] + 500)):
            stats, failure = os.path.join(work, f"{phase}.stats.json"), os.path.join(work, f"{phase}.failure.json")
            cmd = [sys.executable, os.path.join(root, "fuzz", "c02_target.py"), stats, failure, f"-runs={case['runs']}",
                   f"-seed={seed}", "-max_len=4096", "-len_control=0", f"-artifact_prefix={work}/", corpus]  # fmt: skip
            subprocess.run(cmd, env=env, capture_output=True, cwd=root)
            if os.path.exists(failure):
                found = json.load(open(failure, encoding="utf-8"))
                from vlib.core import Violation

                raise Violation(found["clause"], f"(found by the coverage-guided stage, {phase}) " + found["message"],
                                {"replay_stage": "strings", "replay_case": found["case"]})  # fmt: skip
            if os.path.exists(stats):
                part = json.load(open(stats, encoding="utf-8"))
                total["executions"] += part["executions"]
                total["nontrivial"] += part["nontrivial"]
                total["samples"] += [{"string": s, "phase": phase} for s in part["samples"][:1]]
                for label, count in part["labels"].items():
                    total["labels"][label] = total["labels"].get(label, 0) + count
    finally:
        shutil.rmtree(work, ignore_errors=True)
    return {"skipped": False, "labels": total["labels"],
            "_bulk": {"evaluations": total["executions"], "nontrivial": total["nontrivial"], "samples": total["samples"][:1]}}  # fmt: skip


def classify_fuzz(case, info):  # pylint:disable=unused-argument
    return (["skipped: atheris not installed"] if info.get("skipped") else ["campaign-pairs"]), True


STAGES = [
    Stage(name="strings", kind="hyp", check=check, classify=classify, strategy=strategy,
          budget={"quick": 700, "thorough": 15000}, key=lambda c: c["s"],
          floors={"class=wellformed": 0.25, "class=nearmiss": 0.25, "cond-accepted": 0.1, "cond-rejected": 0.3,
                  "resolver-accepted": 0.2, "resolver-rejected": 0.3}),
    Stage(name="all-short-strings", kind="enum", check=check_small, classify=lambda c, i: (["prefix-block"], True),
          enumerate=enumerate_small, exhaustive=True),
    Stage(name="deep", kind="enum", check=check_deep, classify=classify_deep, enumerate=enumerate_deep,
          sample=lambda c: {"shape": c["shape"], "depth": c["depth"]}),
    Stage(name="fuzz", kind="enum", check=check_fuzz, classify=classify_fuzz, enumerate=enumerate_fuzz, tiers=("thorough",)),
]  # fmt: skip
