"""
C20 - Shipped date-time format constraints judge the instant, not its notation.

Instants are integer epoch seconds; the German local time comes from the EU rule in integer arithmetic
(vlib/ref.py: berlin_offset), no pytz / zoneinfo.  Complete enumerations: every whole hour of 1996-2037 (both tiers),
every whole minute and every second within +-2 h of each of the 84 DST switches (thorough).  Generated: instants
around midnight / 06:00 local and DST switches in many notations; arbitrary strings and range edges for the
"never raises, unfulfilled carries a message" clause.
"""

from hypothesis import strategies as st

from vlib import ref, sut
from vlib.core import Stage, Violation, fail

ID = "C20"
MANIFEST = {
    "category": "exploration",
    "text": "Complete enumeration of stated sub-domains plus generated-input search. Exhaustive slices: all 368 184 whole hours 1996-01-01..2037-12-31 (quick and thorough), all ~22 M whole minutes and all seconds within +-2 h of each of the 84 DST switches (thorough), each written in one notation chosen as a pure function of (instant, VERIF_SEED) and judged by all five shipped evaluators. Generated: instants that are local midnight / 06:00, near-misses by +-1 s / +-1 h, DST-switch neighbourhoods, x offsets in [-23:59, +23:59] (incl. seconds offsets) x notations (T/space, fractions, Z, +HH:MM(:SS), +HHMM, +HH, basic and week dates), directly and through format_constraint_evaluation('[93x]'); arbitrary / almost-datetime / very long strings and range-edge datetimes must never raise - neither when the evaluators are called directly nor through format_constraint_evaluation('[93x]') - and must be unfulfilled with a message. Oracle: EU summer-time rule in integer arithmetic; 931 fulfilled iff the written offset is zero. A second evaluator, a subclass that overrides evaluate_932 / evaluate_934, is asked for 931 / 933 / 935 on every instant.",
    "note": "Trusted: the integer EU-DST rule and the formatter in vlib/ref.py (cross-checked against the shipped evaluators on every whole hour), CPython's datetime.fromisoformat as the definition of which notations are parseable at all. The top-level exhaustive flag stays false: only the listed slices are complete. Process configuration by shard (vlib/sut.py; recorded in replay files): plain / parse caches preheated beyond their size / warnings attributed to ahbicht raised as errors / logging fully enabled with every record rendered; one event loop per process or a new one per call; five process time zones; the hash seed is the shard number; namesakes of ahbicht's marshmallow schema classes are registered. Every registry of evaluators / providers / resolvers that the harness builds (sut.configure) also holds one of each kind that names no EDIFACT format and no format version; these must never be asked.",
    "technique": "exhaustive enumeration of time slices plus property-based testing against an independent integer-arithmetic model of German local time",
}
LEVEL = "exploration"
RULE = (
    "instant (epoch second) x UTC offset x notation, judged by evaluate_931..935; bulk stages enumerate ranges of "
    "pairwise different instants; non-trivial = instant within 3 h of a DST switch, or a fulfilled instant "
    "(local 00:00:00 / 06:00:00) written with a non-German offset; distinct by (instant, offset, notation)"
)
ASSUMPTIONS = [
    "EU rule: summer time from 01:00 UTC on the last Sunday of March to 01:00 UTC on the last Sunday of October (in force for Germany in 1996-2037)",
    "a notation that the running interpreter's datetime.fromisoformat rejects counts as 'other string' (must be unfulfilled with message)",
    "strings that fromisoformat accepts but that are outside the generated ISO notations (e.g. 'Z' used as date/time separator) are only required not to raise and to carry a message when unfulfilled",
]
SHARDS = {"quick": 16, "thorough": 16}

START = ref.days_from_civil(1996, 1, 1) * 86400
STOP = ref.days_from_civil(2038, 1, 1) * 86400
OFFSETS = [0, 3600, 7200, -36000, 20700, 50400, -3600, 0, 3600, 7200, 12600, -43200, 86340, -86340]
STYLES = [
    {"sep": "T", "frac": "", "off": "colon", "date": "ext"},
    {"sep": "T", "frac": "", "off": "z", "date": "ext"},
    {"sep": " ", "frac": "", "off": "colon", "date": "ext"},
    {"sep": "T", "frac": ".000", "off": "colon", "date": "ext"},
    {"sep": "T", "frac": ".000000", "off": "colon_s", "date": "ext"},
    {"sep": "T", "frac": "", "off": "basic", "date": "ext"},
    {"sep": "T", "frac": "", "off": "hour", "date": "ext"},
    {"sep": "T", "frac": "", "off": "basic", "date": "basic"},
    {"sep": "T", "frac": "", "off": "z", "date": "basic"},
    {"sep": "T", "frac": "", "off": "colon", "date": "week"},
]
SWITCHES = [t for year in range(1996, 2038) for t in ref.dst_switches(year)]

_EVALUATOR = []


def evaluator():
    if not _EVALUATOR:
        from ahbicht.content_evaluation.fc_evaluators import FcEvaluator

        class Shipped(FcEvaluator):  # the shipped evaluate_931..935 are inherited
            edifact_format = sut.FMT
            edifact_format_version = sut.VER

        _EVALUATOR.append(Shipped())

        class Overriding(FcEvaluator):
            """
            a user class that re-defines two of the five keys (as a coroutine, with semantics of its own) and relies on
            the shipped 931 / 933 / 935: those three must still judge the instant themselves
            """

            edifact_format = sut.FMT
            edifact_format_version = sut.VER

            async def evaluate_932(self, entered_input):  # pylint:disable=invalid-overridden-method,unused-argument
                from ahbicht.models.condition_nodes import EvaluatedFormatConstraint

                return EvaluatedFormatConstraint(False, "932 is handled elsewhere in this application")

            async def evaluate_934(self, entered_input):  # pylint:disable=invalid-overridden-method,unused-argument
                from ahbicht.models.condition_nodes import EvaluatedFormatConstraint

                return EvaluatedFormatConstraint(True, None)

        _EVALUATOR.append(Overriding())
    return _EVALUATOR[0]


def near_switch(ts, radius=3 * 3600):
    return any(abs(ts - switch) <= radius for switch in SWITCHES)


def expected_for(ts, offset_s):
    local = ref.german_local_seconds(ts)
    return {"931": offset_s == 0, "932": local == 0, "933": local == 0, "934": local == 21600, "935": local == 21600}


def judge(ts, offset_s, style, keys=("931", "932", "933", "934", "935"), text=None):
    """all shipped evaluators on one notation of one instant; raises Violation naming the single instant"""
    text = text if text is not None else ref.format_instant(ts, offset_s, style)
    expected = expected_for(ts, offset_s)
    replay = {"replay_stage": "instants", "replay_case": {"ts": ts, "offset_s": offset_s, "style": style, "via": "direct"}}
    instance = evaluator()
    for key in keys:
        res = sut.call(getattr(instance, f"evaluate_{key}"), text)
        if not res.ok:
            raise Violation("raises", f"evaluate_{key}({text!r}) raised {res!r}", replay)
        value = res.value
        fulfilled = getattr(value, "format_constraint_fulfilled", None)
        if fulfilled is not expected[key]:
            raise Violation(f"verdict-{key}", f"evaluate_{key}({text!r}) = {fulfilled!r}; the instant is "
                            f"{_describe(ts)} German local time, written offset {offset_s} s, so {key} must be {expected[key]}", replay)  # fmt: skip
        message = getattr(value, "error_message", None)
        if (not fulfilled) and not (isinstance(message, str) and message):
            raise Violation("message", f"evaluate_{key}({text!r}) is unfulfilled without an error message", replay)
    overriding = _EVALUATOR[1]
    for key in ("931", "933", "935"):
        if key not in keys:
            continue
        res = sut.call(getattr(overriding, f"evaluate_{key}"), text)
        fulfilled = getattr(res.value, "format_constraint_fulfilled", None) if res.ok else None
        if not res.ok or fulfilled is not expected[key]:
            raise Violation(f"verdict-{key}", f"evaluate_{key}({text!r}) of a subclass that overrides evaluate_932 / evaluate_934 gave "
                            f"{res!r}; the instant is {_describe(ts)} German local time, so the shipped {key} must be {expected[key]}", replay)  # fmt: skip
    return text


def _describe(ts):
    local = ts + ref.berlin_offset(ts)
    days, secs = divmod(local, 86400)
    year, month, day = ref.civil_from_days(days)
    return f"{year:04d}-{month:02d}-{day:02d} {secs // 3600:02d}:{secs % 3600 // 60:02d}:{secs % 60:02d}"


# ------------------------------------------------------------------------------------------- bulk enumerations


def check_range(case):
    seed = case["seed"]
    count = nontrivial = 0
    samples = []
    for ts in range(case["start"], case["stop"], case["step"]):
        pick = ts // case["step"] + seed
        offset_s = OFFSETS[pick % len(OFFSETS)]
        style = STYLES[(pick // len(OFFSETS) + pick) % len(STYLES)]
        text = judge(ts, offset_s, style)
        count += 1
        local = ref.german_local_seconds(ts)
        if near_switch(ts) or (local in (0, 21600) and offset_s not in (3600, 7200)):
            nontrivial += 1
            if len(samples) < 1:
                samples.append({"instant": ts, "written": text, "german_local": _describe(ts)})
    return {"_bulk": {"evaluations": count, "nontrivial": nontrivial, "samples": samples}}


def classify_range(case, info):  # pylint:disable=unused-argument
    return [case["slice"]], True


def _chunks(start, stop, step, pieces):
    total = (stop - start) // step
    size = -(-total // pieces)
    for index in range(pieces):
        lo = start + index * size * step
        hi = min(stop, start + (index + 1) * size * step)
        if lo < hi:
            yield lo, hi


def enumerate_hours(tier, shard, nshards, seed):  # pylint:disable=unused-argument
    for index, (lo, hi) in enumerate(_chunks(START, STOP, 3600, 64)):
        if index % nshards == shard:
            yield {"slice": "whole-hours", "start": lo, "stop": hi, "step": 3600, "seed": seed}


def enumerate_minutes(tier, shard, nshards, seed):  # pylint:disable=unused-argument
    for index, (lo, hi) in enumerate(_chunks(START, STOP, 60, 512)):
        if index % nshards == shard:
            yield {"slice": "whole-minutes", "start": lo, "stop": hi, "step": 60, "seed": seed}


def enumerate_switch_seconds(tier, shard, nshards, seed):  # pylint:disable=unused-argument
    for index, switch in enumerate(SWITCHES):
        if index % nshards == shard:
            yield {"slice": "dst-switch-seconds", "start": switch - 7200, "stop": switch + 7200 + 1, "step": 1, "seed": seed}


# ------------------------------------------------------------------------------------------- generated instants


def check_instant(case):
    from ahbicht.content_evaluation.fc_evaluators import text_to_be_evaluated_by_format_constraint
    from ahbicht.expressions.format_constraint_expression_evaluation import format_constraint_evaluation

    ts, offset_s, style = case["ts"], case["offset_s"], case["style"]
    text = ref.format_instant(ts, offset_s, style)
    parseable = sut.call(__import__("datetime").datetime.fromisoformat, text)
    if not parseable.ok:
        # not a notation this interpreter understands at all: 'other string'
        return check_string({"s": text}) | {"text": text, "notation": False}
    judge(ts, offset_s, style, text=text)
    if case.get("via") == "expression":
        expected = expected_for(ts, offset_s)
        sut.configure([evaluator()] + _other_providers())
        for key in ("931", "932", "933", "934", "935"):

            async def run(key=key):
                text_to_be_evaluated_by_format_constraint.set(text)
                return await format_constraint_evaluation(f"[{key}]")

            res = sut.call(run)
            if not res.ok:
                fail("raises", f"format_constraint_evaluation('[{key}]') with input {text!r} raised {res!r}")
            if res.value.format_constraints_fulfilled is not expected[key]:
                fail(f"verdict-{key}", f"format_constraint_evaluation('[{key}]') with input {text!r} = "
                     f"{res.value.format_constraints_fulfilled!r}, expected {expected[key]} ({_describe(ts)} German local time)")  # fmt: skip
            if (res.value.error_message is not None) != (not expected[key]):
                fail("message", f"format_constraint_evaluation('[{key}]') with input {text!r}: error_message = {res.value.error_message!r}")
    return {"text": text, "notation": True}


def _other_providers():
    from ahbicht.content_evaluation.rc_evaluators import DictBasedRcEvaluator
    from ahbicht.expressions.hints_provider import DictBasedHintsProvider
    from ahbicht.expressions.package_expansion import DictBasedPackageResolver

    others = [DictBasedRcEvaluator({}), DictBasedHintsProvider({}), DictBasedPackageResolver({})]
    for other in others:
        other.edifact_format, other.edifact_format_version = sut.FMT, sut.VER
    return others


def classify_instant(case, info):
    ts, offset_s = case["ts"], case["offset_s"]
    local = ref.german_local_seconds(ts)
    labels = ["date=" + case["style"].get("date", "ext"), "off=" + case["style"].get("off", "colon")]
    if not info.get("notation", True):
        labels.append("not-parseable-here")
    fulfilled = local in (0, 21600)
    if fulfilled:
        labels.append("fulfilled-932" if local == 0 else "fulfilled-934")
    if offset_s == 0:
        labels.append("offset-zero")
    if offset_s % 60:
        labels.append("offset-with-seconds")
    near = near_switch(ts)
    if near:
        labels.append("near-dst-switch")
    if case.get("via") == "expression":
        labels.append("via-expression")
    return labels, near or (fulfilled and offset_s not in (3600, 7200))


# ------------------------------------------------------------------------------------------- arbitrary strings


def check_string(case):
    from datetime import datetime

    text = case["s"]
    instance = evaluator()
    parsed = sut.call(datetime.fromisoformat, text[:-1] + "+00:00" if text.endswith("Z") and text.count("Z") == 1 else text)
    definitely_other = (not parsed.ok and parsed.is_a(ValueError)) or (parsed.ok and parsed.value.tzinfo is None) or not text
    for key in ("931", "932", "933", "934", "935"):
        res = sut.call(getattr(instance, f"evaluate_{key}"), text)
        if not res.ok:
            fail("raises", f"evaluate_{key}({text!r}) raised {res!r}")
        value = res.value
        fulfilled = getattr(value, "format_constraint_fulfilled", None)
        if not isinstance(fulfilled, bool):
            fail("raises", f"evaluate_{key}({text!r}) returned {value!r}")
        message = getattr(value, "error_message", None)
        if definitely_other and fulfilled:
            fail("other-fulfilled", f"evaluate_{key}({text!r}) is fulfilled although the string is no datetime with offset")
        if not fulfilled and not (isinstance(message, str) and message):
            fail("message", f"evaluate_{key}({text!r}) is unfulfilled without an error message")
        # the same through an expression (the way the validation reaches the constraints)
        from ahbicht.content_evaluation.fc_evaluators import text_to_be_evaluated_by_format_constraint
        from ahbicht.expressions.format_constraint_expression_evaluation import format_constraint_evaluation

        sut.configure([instance] + _other_providers())

        async def through_expression(key=key):
            text_to_be_evaluated_by_format_constraint.set(text)
            return await format_constraint_evaluation(f"[{key}]")

        via = sut.call(through_expression)
        if not via.ok:
            fail("raises", f"format_constraint_evaluation('[{key}]') with input {text[:80]!r}... ({len(text)} characters) raised {via!r}")
        if via.value.format_constraints_fulfilled is not fulfilled:
            fail("route-differs", f"format_constraint_evaluation('[{key}]') = {via.value.format_constraints_fulfilled!r} "
                 f"but evaluate_{key} = {fulfilled!r} for {text[:80]!r}")  # fmt: skip
        if not fulfilled and not (isinstance(via.value.error_message, str) and via.value.error_message):
            fail("message", f"format_constraint_evaluation('[{key}]') with input {text[:80]!r} is unfulfilled without an error message")
    return {"other": definitely_other}


def classify_string(case, info):
    labels = ["definitely-other" if info["other"] else "parseable-or-exotic"]
    text = case["s"]
    if text[:4] in ("0001", "9999"):
        labels.append("range-edge")
    if len(text) > 100:
        labels.append("long-input")
    return labels, len(text) >= 10 or text[:4] in ("0001", "9999")


# --------------------------------------------------------------------------------------------------- generators


@st.composite
def _instant(draw):
    pick = draw(st.sampled_from(range(10)))
    if pick < 5:
        # an instant that is 00:00:00 or 06:00:00 German local time on a drawn day, possibly nudged
        day = draw(st.integers(START // 86400, STOP // 86400 - 1))
        target = draw(st.sampled_from([0, 21600]))
        nudge = draw(st.sampled_from([0] * 16 + [1, -1, 60, -60, 3600, -3600, 7200, 43200]))
        guess = day * 86400 + target - 3600
        for candidate in (guess, guess - 3600):
            if ref.german_local_seconds(candidate) == target:
                return min(max(candidate + nudge, START), STOP - 1)
        return min(max(guess + nudge, START), STOP - 1)
    if pick < 8:
        switch = draw(st.sampled_from(SWITCHES))
        delta = draw(st.one_of(st.integers(-10800, 10800), st.sampled_from([-7200, -3600, -1, 0, 1, 3599, 3600, 7200, -10800, 10800])))
        return min(max(switch + delta, START), STOP - 1)
    return draw(st.integers(START, STOP - 1))


@st.composite
def _offset(draw):
    pick = draw(st.sampled_from(range(10)))
    if pick < 5:
        return draw(st.sampled_from([0, 3600, 7200, -3600, 20700, -36000, 50400]))
    if pick < 9:
        return draw(st.integers(-1439, 1439)) * 60
    return draw(st.integers(-86399, 86399))


@st.composite
def _style(draw):
    return {
        "sep": draw(st.sampled_from(["T", "T", "T", " "])),
        "frac": draw(st.sampled_from(["", "", "", ".000", ".000000", ",000"])),
        "off": draw(st.sampled_from(["colon", "colon", "colon", "z", "colon_s", "basic", "hour"])),
        "date": draw(st.sampled_from(["ext", "ext", "ext", "ext", "basic", "week"])),
    }


def strategy_instants(tier):  # pylint:disable=unused-argument
    @st.composite
    def build(draw):
        return {"ts": draw(_instant()), "offset_s": draw(_offset()), "style": draw(_style()),
                "via": draw(st.sampled_from(["direct", "direct", "expression"]))}  # fmt: skip

    return build()


ALMOST = ["2022-01-01T00:00:00", "2022-01-01", "2022-01-01T00:00:00+", "2022-01-01T00:00:00+1", "2022-01-01T24:00:00+01:00",
          "2022-01-01T00:00:00+24:00", "2022-01-01T00:00:00+01:60", "2022-02-30T00:00:00+01:00", "2022-13-01T00:00:00+01:00",
          "2022-01-01T00:00:60+01:00", "2022-01-01T00:00:00ZZ", "Z", "ZZ", "2022-01-01Z00:00:00Z", "2022-01-01T00:00:00 Z",
          "0001-01-01T00:00:00+05:00", "0001-01-01T00:00:00+00:01", "9999-12-31T23:59:59-05:00", "9999-12-31T23:59:59-00:01",
          "0001-01-01T00:00:00+23:59", "9999-12-31T23:59:59-23:59", "0001-01-01T00:59:59+01:00", "9999-12-31T22:00:00-02:00",
          "0000-01-01T00:00:00+00:00", "10000-01-01T00:00:00+00:00", "2022-01-01T00:00:00+01:00 ", " 2022-01-01T00:00:00+01:00",
          "2022-01-01T00:00:00+01:00\n", "２０２２-01-01T00:00:00+01:00", "2022-01-01T00:00:00−01:00", "\x00", "None", "null"]  # fmt: skip


def strategy_strings(tier):  # pylint:disable=unused-argument
    @st.composite
    def build(draw):
        pick = draw(st.sampled_from(range(10)))
        if pick < 3:
            return {"s": draw(st.sampled_from(ALMOST))}
        if pick < 5:
            year = draw(st.sampled_from(["0001", "9999"]))
            month_day = "01-01" if year == "0001" else "12-31"
            clock = draw(st.sampled_from(["00:00:00", "23:59:59", "12:00:00", "01:00:00", "22:59:59"]))
            minutes = draw(st.integers(-1439, 1439))
            sign = "+" if minutes >= 0 else "-"
            return {"s": f"{year}-{month_day}T{clock}{sign}{abs(minutes) // 60:02d}:{abs(minutes) % 60:02d}"}
        if pick < 8:
            base = ref.format_instant(draw(_instant()), draw(_offset()), draw(_style()))
            chars = list(base)
            for _ in range(draw(st.integers(1, 2))):
                pos = draw(st.integers(0, len(chars) - 1))
                edit = draw(st.sampled_from(["delete", "insert", "replace"]))
                if edit == "delete":
                    del chars[pos]
                elif edit == "insert":
                    chars.insert(pos, draw(st.sampled_from("0123456789-+:TZ. W")))
                else:
                    chars[pos] = draw(st.sampled_from("0123456789-+:TZ. W"))
                if not chars:
                    break
            return {"s": "".join(chars)}
        if pick == 8:
            # long inputs: a datetime with very many fractional zeros, or a long unparsable tail
            base = ref.format_instant(draw(_instant()), draw(_offset()), {"sep": "T", "frac": "", "off": "colon", "date": "ext"})
            if draw(st.booleans()):
                return {"s": base[:19] + "." + "0" * draw(st.integers(100, 400)) + base[19:]}
            return {"s": base + "x" * draw(st.integers(100, 400))}
        return {"s": draw(st.text(max_size=30))}

    return build()


STAGES = [
    Stage(name="hours", kind="enum", check=check_range, classify=classify_range, enumerate=enumerate_hours, exhaustive=True),
    Stage(name="minutes", kind="enum", check=check_range, classify=classify_range, enumerate=enumerate_minutes,
          exhaustive=True, tiers=("thorough",)),
    Stage(name="switch-seconds", kind="enum", check=check_range, classify=classify_range,
          enumerate=enumerate_switch_seconds, exhaustive=True, tiers=("thorough",)),
    Stage(name="instants", kind="hyp", check=check_instant, classify=classify_instant, strategy=strategy_instants,
          budget={"quick": 600, "thorough": 20000},
          floors={"fulfilled-932": 0.08, "fulfilled-934": 0.08, "near-dst-switch": 0.15, "offset-zero": 0.05},
          sample=lambda c: {"instant": c["ts"], "offset_s": c["offset_s"], "written": ref.format_instant(c["ts"], c["offset_s"], c["style"])}),
    Stage(name="strings", kind="hyp", check=check_string, classify=classify_string, strategy=strategy_strings,
          budget={"quick": 400, "thorough": 10000}, floors={"definitely-other": 0.4, "range-edge": 0.07, "long-input": 0.03}),
]  # fmt: skip
