"""
C15 - Each data element's format constraints see only that element's own input.

Deep AHBs with several free-text data elements carrying pairwise different inputs and format-constraint-bearing
expressions are validated under a generated schedule.  The harness's format-constraint evaluator answers as a pure
function of (key, text seen), echoes the text in its message and logs every (key, text) it is asked about; all its
calls - and those of the rc evaluator, hints provider and package resolver - yield a generated number of times.
Oracle: every free-text element's result equals validating a copy of that element alone (zero schedule, its parent's
status taken from the whole run), and the multiset of (key, text) pairs evaluated during the whole run equals the
union of those of the single runs.
"""

from collections import Counter

from hypothesis import strategies as st

from vlib import gen, ref, sched, sut, vtree
from vlib.core import Stage, fail

ID = "C15"
MANIFEST = {
    "category": "exploration",
    "text": "Schedule exploration by generated-input search with a differential oracle: deep AHBs (up to 40/100 nodes) with >= 3 free-text data elements whose inputs are pairwise different and whose expressions are dense in format constraints x content evaluation results x a schedule of yield counts consumed by the harness's asynchronous format-constraint / requirement-constraint evaluators, hints provider and package resolver. For every free-text element that the run reports, its ValidationResultInContext must equal the result of validate_data_element_freetext on a fresh copy of that element alone (nothing yields; segment status taken from the whole run); the multiset of (format-constraint key, text seen) pairs logged during the whole run must equal the union of the pairs logged by the single runs, i.e. every constraint was evaluated against its own element's input. A drawn subset of the format-constraint methods are plain functions that read the documented context variable themselves; in the element's own run every such evaluation must have seen exactly the element's input. Every visited segment with several free-text elements is also validated through validate_segment under the same schedule, below the status its group received; its rows must equal those of the whole run. A third of the data elements have no discriminator (None) or share one; rows are attributed to elements by position. The same maus object is validated a second time; the rows of its free-text elements must equal those of the first validation. A seventh of the inputs are padded with blanks, line ends, NBSP or control characters or consist of nothing else. Independent oracle: for every reported free-text element whose deciding part uses the harness's constraints only, format_validation_fulfilled must equal the reference reading of that part (first fulfilled part, the attached constraints that take part, each judged by the pure constraint function on this element's input).",
    "note": "Trusted: the schedule harness (vlib/sched.py); the format-constraint oracle function is pure in (key, text) and echoes the text, so a foreign input changes verdict or message. Interleavings are those of one asyncio event loop. Process configuration by shard (vlib/sut.py; recorded in replay files): plain / parse caches preheated beyond their size / warnings attributed to ahbicht raised as errors / logging fully enabled with every record rendered; one event loop per process or a new one per call; five process time zones; the hash seed is the shard number; namesakes of ahbicht's marshmallow schema classes are registered. Every registry of evaluators / providers / resolvers that the harness builds (sut.configure) also holds one of each kind that names no EDIFACT format and no format version; these must never be asked.",
    "technique": "property-based schedule exploration with a differential oracle (element inside the concurrent run vs the element alone) and a log invariant",
}
LEVEL = "exploration"
RULE = (
    "AHB tree x content evaluation result x schedule; non-trivial = format-constraint evaluations belonging to two "
    "different inputs were in flight at the same time (from the harness's log); distinct by (case, schedule)"
)
ASSUMPTIONS = ["all expressions are valid; free-text inputs are pairwise different by construction (at most one absent)"]
BOUNDS = {"quick": {"max_nodes": 40, "max_depth": 2}, "thorough": {"max_nodes": 100, "max_depth": 3}}


FC_WITHOUT_OWN_MESSAGE = vtree.FCS[-1]


def fc_function(key, text):
    """pure function of (key, text seen); the message echoes the text"""
    if text is not None and text == f"ok{key}":
        return True, None
    if text and (len(text) + int(key)) % 5 == 0:
        return True, None
    if key == FC_WITHOUT_OWN_MESSAGE:
        return False, None  # no message of its own: ahbicht supplies the default message
    return False, f"[{key}] rejects {text!r}"


fc_function.keys = tuple(vtree.FCS)


def _api():
    from ahbicht.models.validation_values import RequirementValidationValue
    from ahbicht.validation.validation import validate_data_element_freetext, validate_deep_anwendungshandbuch

    return validate_deep_anwendungshandbuch, validate_data_element_freetext, RequirementValidationValue


def _configure(tree, cer, delays, sync_fc=()):
    schedule = sched.Schedule(delays)
    sut.configure(sched.make_providers(schedule, rc=cer["rc"], hints=cer["hints"], packages=tree["table"], fc_function=fc_function,
                                       sync_fc=sync_fc))  # fmt: skip
    return schedule


def _fc_log(schedule):
    return Counter((label[1], label[2]) for label in schedule.labels if label[0] == "fc")


def check(case):
    deep, freetext, values = _api()
    tree, cer, soll = case["tree"], case["cer"], case["soll"]
    sync_fc = case.get("sync_fc", ())
    schedule = _configure(tree, cer, case["delays"], sync_fc)
    built = vtree.build(tree)
    whole = sut.call(deep, built, soll)
    info = {"overlap": 0, "elements": 0, "nie": False}
    if not whole.ok:
        if whole.is_a(NotImplementedError):
            info["nie"] = True
            return info
        fail("raises", f"validation under schedule {case['delays']} raised {whole!r}")
    try:
        rows = vtree.align(tree, whole.value)  # by position: some data elements have no or a shared discriminator
    except vtree.Misaligned as error:
        fail("rows", f"the result list does not report every visited node once, in document order: {error}; "
             f"rows {[r.discriminator for r in whole.value]}")  # fmt: skip
    whole_log = _fc_log(schedule)
    # the same maus object validated a second time (an application that re-validates after every edit does that): every
    # free-text element is again judged against its own entered input - value pools are left out, ahbicht documents that
    # it overwrites an unexpected value there
    _configure(tree, cer, case["delays"], sync_fc)
    again = sut.call(deep, built, soll)
    if not again.ok:
        fail("raises", f"the second validation of the same DeepAnwendungshandbuch object raised {again!r}")
    try:
        rows_again = vtree.align(tree, again.value)
    except vtree.Misaligned as error:
        fail("rows", f"second validation of the same object: {error}")
    for kind, node, _ in vtree.nodes(tree):
        if kind == "ft" and node["d"] in rows and rows_again.get(node["d"]) != rows[node["d"]]:
            fail("second-validation-differs", f"element {node['d']} with input {node['inp']!r} and expression {node['expr']['s']!r}: "
                 f"first validation {rows[node['d']].validation_result}, second validation of the same object "
                 f"{rows_again[node['d']].validation_result}")  # fmt: skip
    info["overlap"] = sum(1 for a, b in schedule.overlaps if a[0] == "fc" and b[0] == "fc" and a[2] != b[2])
    single_log = Counter()
    for kind, node, _ in vtree.nodes(tree):
        if kind != "seg" or node["d"] not in rows:
            continue
        segment_status = rows[node["d"]].validation_result.requirement_validation
        for element in node["des"]:
            if element["t"] != "ft" or element["d"] not in rows:
                continue
            info["elements"] += 1
            alone_schedule = _configure(tree, cer, [], sync_fc)
            alone = sut.call(freetext, vtree.build_element(element), segment_status, soll)
            if not alone.ok:
                fail("raises", f"validating element {element['d']} ({element['expr']['s']!r}) alone raised {alone!r}")
            single_log.update(_fc_log(alone_schedule))
            strangers = sorted({(key, text) for key, text in _fc_log(alone_schedule) if text != element["inp"]}, key=str)
            if strangers:
                fail("own-input", f"element {element['d']} with input {element['inp']!r} and expression {element['expr']['s']!r}, "
                     f"validated on its own: its format constraint methods saw {strangers} (key, text) instead of its input")  # fmt: skip
            # what the constraints say about the own input, read off the written expression: the part that decides
            # (C09), the constraints of it that take part (C07), each judged on this element's input (C08)
            parts = [p[:2] for p in element["expr"]["parts"]]
            decisive = parts[ref.select_part(parts, cer["rc"])][1]
            if decisive is not None and all(key in fc_function.keys for key in ref.keys_of(decisive, "fc")):
                truth = {key: fc_function(key, element["inp"])[0] for key in ref.keys_of(decisive, "fc")}
                expected = ref.fc_direct(decisive, cer["rc"], truth)
                expected = True if expected is None else expected
                reported = rows[element["d"]].validation_result.format_validation_fulfilled
                if reported is not expected:
                    fail("format-outcome", f"element {element['d']} with input {element['inp']!r} and expression {element['expr']['s']!r} "
                         f"under rc={cer['rc']}: format_validation_fulfilled = {reported!r}, but its format constraints, judged on its "
                         f"own input ({truth}), give {expected!r}")  # fmt: skip
                info["judged"] = info.get("judged", 0) + 1
            if alone.value != rows[element["d"]]:
                fail("element-differs", f"element {element['d']} with input {element['inp']!r} and expression "
                     f"{element['expr']['s']!r}: inside the run {rows[element['d']].validation_result}, alone {alone.value.validation_result}")  # fmt: skip
    # the second observation point: validate_segment on every visited segment with several free-text elements, under
    # the same schedule, below the status its group got in the whole run - the rows must be those of the whole run
    from ahbicht.validation.validation import validate_segment

    def walk(group):
        for sub in group["groups"]:
            walk(sub)
        for seg in group["segs"]:
            if seg["d"] in rows and group["d"] in rows and sum(1 for e in seg["des"] if e["t"] == "ft") >= 2:
                _configure(tree, cer, case["delays"], sync_fc)
                parent = rows[group["d"]].validation_result.requirement_validation
                res = sut.call(validate_segment, vtree.build_segment(seg), parent, soll)
                if not res.ok:
                    fail("raises", f"validate_segment({seg['d']}) below {parent} under schedule {case['delays']} raised {res!r}")
                expected_rows = [rows[seg["d"]]] + [rows[e["d"]] for e in seg["des"] if e["d"] in rows]
                if list(res.value) != expected_rows:
                    differing = next((pair for pair in zip(res.value, expected_rows) if pair[0] != pair[1]), None)
                    fail("segment-differs", f"validate_segment({seg['d']}) under the schedule returns {len(res.value)} rows, the whole "
                         f"run has {len(expected_rows)} for it; first difference: {differing}")  # fmt: skip
                info["segments"] = info.get("segments", 0) + 1

    for root in tree["groups"]:
        walk(root)
    # segment groups, segments and value-pool entries have no entered input: their format constraints (if any) are
    # evaluated against the unset text (None); those evaluations are not attributed to any free-text element
    foreign = [(k, v) for k, v in sorted((whole_log - single_log).items(), key=str) if k[1] is not None][:4]
    missing = sorted((single_log - whole_log).items(), key=str)[:4]
    if foreign or missing:
        fail("foreign-input", f"format constraints were evaluated against other inputs than their own element's: "
             f"only in the whole run {foreign}, only in the single runs {missing}")  # fmt: skip
    return info


def classify(case, info):
    labels = [f"free-text-elements={min(info['elements'], 8)}"]
    if info["nie"]:
        labels.append("NotImplementedError")
    if info["overlap"]:
        labels.append("fc-evaluations-overlap")
    labels.append(f"context-reading-fc-methods={len(case.get('sync_fc', ()))}")
    if info.get("segments"):
        labels.append("validate_segment-route")
    shared = [vtree.disc(n) for k, n, _ in vtree.nodes(case["tree"]) if k in ("ft", "vp")]
    if len(set(shared)) < len(shared):
        labels.append("shared-or-absent-discriminators")
    return labels, info["overlap"] > 0


def strategy(tier):
    bounds = BOUNDS[tier]

    @st.composite
    def build(draw):
        def make_expression(table_asts):
            return vtree.node_expression(table_asts, fc_dense=True, size=5)

        tree = draw(vtree.g_tree(max_nodes=bounds["max_nodes"], max_depth=bounds["max_depth"], min_freetext=3, expr=make_expression))
        counter = 0
        for kind, node, _ in vtree.nodes(tree):
            if kind == "ft":
                counter += 1
                choice = draw(st.sampled_from(["text", "text", "text", "ok", "date", "long", "padded"]))
                if choice == "padded":
                    # the entered input is the text as it is: blanks, line ends and control characters around it belong to it
                    core = draw(st.sampled_from(["", f"p{counter}", f"100% {{{counter}}}"]))
                    if core:
                        node["inp"] = draw(st.sampled_from(gen.PADDINGS)) + core + draw(st.sampled_from(gen.PADDINGS))
                    else:
                        node["inp"] = draw(st.sampled_from([" ", "\t", "\n", "\u00a0", "\x1f"])) * counter
                    continue
                if choice == "long":
                    # free texts may be long (FTX: 512 characters); the harness's constraints depend on the whole text
                    node["inp"] = f"L{counter}-" + "abcdefghijklmnopqrstuvwxyz" * draw(st.sampled_from([10, 20, 40]))
                    continue
                if choice == "ok":
                    node["inp"] = f"ok{draw(st.sampled_from(vtree.FCS))}"[: 5] + "x" * counter
                elif choice == "date":
                    node["inp"] = f"2022-01-{counter % 28 + 1:02d}T00:00:00+01:00"
                else:
                    node["inp"] = "abcdefghij"[: counter % 9 + 1] + str(counter)
        # data elements that were "not found in the MIG" have no discriminator, and nothing makes discriminators unique
        vtree.anonymise(draw, tree)
        first = next((node for kind, node, _ in vtree.nodes(tree) if kind == "ft"), None)
        if first is not None and draw(st.booleans()):
            first["inp"] = draw(st.sampled_from([None, ""]))
        cer = draw(vtree.g_cer(weights=draw(st.sampled_from(["FFFU", "F", "FFFFUK"]))))
        delays = draw(st.lists(st.sampled_from([0, 0, 1, 2, 3, 5, 8]), min_size=3, max_size=60))
        # which format constraint methods are plain functions that read the documented context variable themselves
        sync_fc = draw(st.sampled_from([[], [], [vtree.FCS[0]], [vtree.FCS[-1]], list(vtree.FCS)]))
        return {"tree": tree, "cer": cer, "soll": draw(st.booleans()), "delays": delays, "sync_fc": sync_fc}

    return build()


def sample(case):
    return {"free_text": [(n["d"], n["expr"]["s"], n["inp"]) for k, n, _ in vtree.nodes(case["tree"]) if k == "ft"][:6],
            "rc": case["cer"]["rc"], "delays": case["delays"][:20]}  # fmt: skip


STAGES = [
    Stage(name="schedules", kind="hyp", check=check, classify=classify, strategy=strategy,
          budget={"quick": 100, "thorough": 800}, floors={"fc-evaluations-overlap": 0.2}, sample=sample),
]  # fmt: skip
