"""
C18 - Key extraction partitions keys by range; all possible evaluations enumerated.

Stage `extract`: expressions over key numbers 0..3000 (range borders over-weighted), packages and time conditions;
an independent range function says where every key belongs, the union law is checked on composed expressions, and
with resolution the extract must equal the extract of the textually substituted expression (as in C10).
Stage `enumeration`: for every (m, n) up to the tier's bound the generated content evaluation results must be
exactly {FULFILLED, UNFULFILLED, UNKNOWN}^m x {True, False}^n, each combination once.
"""

import hashlib
import itertools
from collections import Counter

from hypothesis import strategies as st

from vlib import gen, ref, sut
from vlib.core import Stage, fail

ID = "C18"
MANIFEST = {
    "category": "exploration",
    "text": "Generated-input search (stage extract): condition and AHB expressions over key numbers 0..3000 with the borders 0/1/499/500/900/901/999/1000/1999/2000/2499/2500 over-weighted, at most one out-of-range key per expression, packages, time conditions; extract_categorized_keys must put every key into the list an independent range function names, list it once, keep condition keys ascending by number, reject the expression iff a key is out of range, satisfy extract(A op B) = extract(A) + extract(B) for every operator and for AHB concatenation, and with resolve_packages/replace_time_conditions equal the extract of the textually substituted expression. Stage enumeration is a complete enumeration over all (m, n) with m, n <= 5 (thorough: <= 6): the multiset of (requirement, format) maps from generate_possible_content_evaluation_results must equal the Cartesian product, each element exactly once, hints filled for every hint key. The enumeration grid also contains the cells with 7 (thorough: 8) requirement keys.",
    "note": "Trusted: ref.key_category, ref.subst_*, the generators. (m, n) = (0, 0) is exempt (the code documents [] there). Key strings with leading zeros are distinct keys; ties in numeric order may appear in any order. Process configuration by shard (vlib/sut.py; recorded in replay files): plain / parse caches preheated beyond their size / warnings attributed to ahbicht raised as errors / logging fully enabled with every record rendered; one event loop per process or a new one per call; five process time zones; the hash seed is the shard number; namesakes of ahbicht's marshmallow schema classes are registered. Every registry of evaluators / providers / resolvers that the harness builds (sut.configure) also holds one of each kind that names no EDIFACT format and no format version; these must never be asked.",
    "technique": "property-based testing against an independent range function and algebraic (union) law; exhaustive enumeration of (m, n) for the Cartesian-product clause",
}
LEVEL = "exploration"
RULE = (
    "stage extract: generated expression pairs (A, B, operator) x resolution flags; non-trivial = composed expression "
    "with a repeated key and keys of >= 3 categories; stage enumeration: every (m, n) in the grid; non-trivial = "
    "m >= 1 and n >= 1; distinct by case"
)
ASSUMPTIONS = [
    "(m, n) = (0, 0): both [] (documented, pinned by the suite) and the one empty combination are accepted",
    "the type of the exception that rejects an out-of-range key is not constrained",
]
BOUNDS = {"quick": {"max_atoms": 6, "max_m": 5, "max_n": 5}, "thorough": {"max_atoms": 10, "max_m": 6, "max_n": 6}}
BORDERS = [0, 1, 499, 500, 900, 901, 999, 1000, 1999, 2000, 2499, 2500]


def _extract_api():
    from ahbicht.expressions.condition_expression_parser import extract_categorized_keys

    return extract_categorized_keys


def _providers(table):
    from vlib.props.c10 import _providers as providers

    return providers(table)


def _expected_lists(asts):
    """None if some key is out of range, else dict category -> set of key strings"""
    out = {"rc": set(), "hint": set(), "fc": set(), "pkg": set(), "time": set()}
    for ast in asts:
        for atom in ref.atoms_of(ast):
            if atom[0] in ("pkg", "time"):
                out[atom[0]].add(atom[1])
            else:
                category = ref.key_category(int(atom[1]))
                if category is None:
                    return None
                out[category].add(atom[1])
    return out


def _check_extract(extract, expected, what):
    lists = {
        "rc": extract.requirement_constraint_keys,
        "hint": extract.hint_keys,
        "fc": extract.format_constraint_keys,
        "pkg": extract.package_keys,
        "time": extract.time_condition_keys,
    }
    for category, got in lists.items():
        if len(got) != len(set(got)):
            fail("listed-once", f"{what}: {category} keys {got} contain a duplicate")
        if set(got) != expected[category]:
            fail("category", f"{what}: {category} keys are {got}, expected {sorted(expected[category])}")
        if category in ("rc", "hint", "fc"):
            numbers = [int(k) for k in got]
            if numbers != sorted(numbers):
                fail("ascending", f"{what}: {category} keys {got} are not in ascending numeric order")
    return lists


def _norm(extract):
    """the five lists with ties in numeric order ('1' vs '01') put into a fixed order"""
    return {
        "rc": sorted(extract.requirement_constraint_keys, key=lambda k: (int(k), k)),
        "hint": sorted(extract.hint_keys, key=lambda k: (int(k), k)),
        "fc": sorted(extract.format_constraint_keys, key=lambda k: (int(k), k)),
        "pkg": sorted(extract.package_keys),
        "time": sorted(extract.time_condition_keys),
    }


def check_extract(case):
    extract_keys = _extract_api()
    table = case["table"]
    sut.configure(_providers(table))
    texts = {"A": case["a"]["s"], "B": case["b"]["s"], "AB": case["s"]}
    asts = {"A": [case["a"]["ast"]], "B": [case["b"]["ast"]], "AB": [case["a"]["ast"], case["b"]["ast"]]}
    results = {}
    info = {"rejected": False}
    for name in ("A", "B", "AB"):
        res = sut.call(extract_keys, texts[name])
        expected = _expected_lists(asts[name])
        if expected is None:
            if res.ok:
                fail("out-of-range-accepted", f"{texts[name]!r} contains an out-of-range key but was extracted: {res.value}")
            info["rejected"] = True
            results[name] = None
            continue
        if not res.ok:
            fail("in-range-rejected", f"extract_categorized_keys({texts[name]!r}) raised {res!r}")
        _check_extract(res.value, expected, f"extract({texts[name]!r})")
        results[name] = res.value
    if all(results.values()):
        before = {name: _norm(results[name]) for name in ("A", "B")}
        union = sut.call(lambda: results["A"] + results["B"])
        if not union.ok:
            fail("union", f"extract(A) + extract(B) raised {union!r}")
        # the summands are values: composing them must not change them (they are re-used for further compositions)
        for name in ("A", "B"):
            if _norm(results[name]) != before[name]:
                fail("union-modifies-operand", f"extract({texts[name]!r}) was changed by being used as a summand: "
                     f"{before[name]} became {_norm(results[name])}")  # fmt: skip
        again = sut.call(lambda: results["B"] + results["A"])
        if not again.ok or _norm(again.value) != _norm(union.value):
            fail("union", f"extract(B) + extract(A) = {again!r} differs from extract(A) + extract(B) = {union.value}")
        twice = sut.call(lambda: results["A"] + results["A"])
        if not twice.ok or _norm(twice.value) != before["A"]:
            fail("union", f"extract(A) + extract(A) = {twice!r} is not extract(A) = {before['A']}")
        _check_extract(union.value, _expected_lists(asts["AB"]), "extract(A) + extract(B)")
        if _norm(union.value) != _norm(results["AB"]):
            fail("union", f"extract({texts['AB']!r}) = {results['AB']} but extract(A) + extract(B) = {union.value}")
    # with resolution: the extract of the substituted expression
    if case["resolve"] and all(table.get(k) is not None for k in case["used"]):
        resolved = sut.call(extract_keys, texts["AB"], True, True)
        substituted = ref.subst_time(ref.subst_packages(texts["AB"], table, time_too=True))
        plain = sut.call(extract_keys, substituted, False, False)
        if resolved.ok != plain.ok:
            fail("resolved-extract", f"extract({texts['AB']!r}, resolved) -> {resolved!r} but extract({substituted!r}) -> {plain!r}")
        if resolved.ok and _norm(resolved.value) != _norm(plain.value):
            fail("resolved-extract", f"extract({texts['AB']!r}, resolved) = {resolved.value}, extract of the substituted "
                 f"{substituted!r} = {plain.value}")  # fmt: skip
        info["resolved"] = True
    return info


def classify_extract(case, info):
    atoms = ref.atoms_of(case["a"]["ast"]) + ref.atoms_of(case["b"]["ast"])
    labels = ["rejected" if info["rejected"] else "all-in-range", "ahb" if case["is_ahb"] else "condition"]
    keys = [a[1] for a in atoms]
    repeated = len(keys) != len(set(keys))
    categories = set()
    for atom in atoms:
        if atom[0] in ("pkg", "time"):
            categories.add(atom[0])
        else:
            categories.add(ref.key_category(int(atom[1])) or "out")
    if repeated:
        labels.append("repeated-key")
    labels.append(f"categories={len(categories)}")
    if info.get("resolved"):
        labels.append("with-resolution")
    if any(int(a[1]) in BORDERS for a in atoms if a[0] not in ("pkg", "time")):
        labels.append("border-key")
    return labels, repeated and len(categories) >= 3 and not info["rejected"]


# ------------------------------------------------------------------------------------------- enumeration clause


def _pick_keys(seed, m, n, h):
    """distinct in-range keys as a pure function of (seed, m, n)"""

    def numbers(tag, ranges, count):
        pool = [x for lo, hi in ranges for x in range(lo, hi + 1)]
        out = []
        counter = 0
        while len(out) < count:
            digest = hashlib.sha1(f"{seed}:{m}:{n}:{tag}:{counter}".encode()).digest()
            value = pool[int.from_bytes(digest[:4], "big") % len(pool)]
            counter += 1
            if str(value) not in out:
                out.append(str(value))
        return out

    return numbers("rc", [(1, 499), (2000, 2499)], m), numbers("fc", [(901, 999)], n), numbers("hint", [(500, 900)], h)


def check_enumeration(case):
    from ahbicht.models.categorized_key_extract import CategorizedKeyExtract

    rc_keys, fc_keys, hint_keys = case["rc"], case["fc"], case["hints"]
    extract = CategorizedKeyExtract(
        hint_keys=list(hint_keys), format_constraint_keys=list(fc_keys), requirement_constraint_keys=list(rc_keys),
        package_keys=[], time_condition_keys=[],
    )  # fmt: skip
    res = sut.call(extract.generate_possible_content_evaluation_results)
    if not res.ok:
        fail("enumeration-raises", f"generate_possible_content_evaluation_results for m={len(rc_keys)}, n={len(fc_keys)} raised {res!r}")
    results = res.value
    m, n = len(rc_keys), len(fc_keys)
    if m == 0 and n == 0:
        if len(results) > 1:
            fail("cartesian", f"(m, n) = (0, 0) gives {len(results)} results")
        return {"count": len(results)}
    seen = Counter()
    for cer in results:
        if set(cer.requirement_constraints) != set(rc_keys) or set(cer.format_constraints) != set(fc_keys):
            fail("cartesian", f"a generated result has keys {sorted(cer.requirement_constraints)} / {sorted(cer.format_constraints)}")
        rc_part = tuple(sut.letter(cer.requirement_constraints[k]) for k in rc_keys)
        fc_part = tuple(cer.format_constraints[k].format_constraint_fulfilled for k in fc_keys)
        if any(x not in "FUK" for x in rc_part) or any(not isinstance(x, bool) for x in fc_part):
            fail("cartesian", f"a generated result has values outside the documented sets: {rc_part} {fc_part}")
        seen[(rc_part, fc_part)] += 1
        missing_hints = [k for k in hint_keys if not cer.hints.get(k)]
        if missing_hints:
            fail("hints", f"generated result lacks hint texts for {missing_hints}")
    expected = set(itertools.product(itertools.product("FUK", repeat=m), itertools.product([True, False], repeat=n)))
    duplicates = [k for k, v in seen.items() if v > 1]
    if duplicates:
        fail("cartesian", f"m={m}, n={n}: {len(duplicates)} combinations occur more than once, e.g. {duplicates[0]}")
    if set(seen) != expected:
        missing = sorted(expected - set(seen))[:3]
        extra = sorted(set(seen) - expected)[:3]
        fail("cartesian", f"m={m}, n={n}: {len(seen)} combinations instead of {len(expected)}; missing e.g. {missing}, unexpected e.g. {extra}")
    return {"count": len(results)}


def enumerate_grid(tier, shard, nshards, seed):
    bound = BOUNDS[tier]
    cells = [(m, n) for m in range(bound["max_m"] + 1) for n in range(bound["max_n"] + 1)]
    # a few cells beyond the grid: the implementation filters C(4m, m) candidates, which takes about a second for 7
    # requirement keys and ten for 8 - where a shortcut with a cut-off would sit
    cells += [(7, 0), (7, 1)] if tier == "quick" else [(7, 0), (7, 1), (7, 3), (8, 0), (8, 1)]
    # heavy cells first so that shards are balanced
    cells.sort(key=lambda c: -(4 ** c[0]) * (2 ** c[1]))
    for index, (m, n) in enumerate(cells):
        if index % nshards == shard:
            rc, fc, hints = _pick_keys(seed, m, n, (m + n) % 3)
            yield {"rc": rc, "fc": fc, "hints": hints}


# --------------------------------------------------------------------------------------------------- generators


@st.composite
def _key_number(draw, allow_out):
    pick = draw(st.sampled_from(range(10)))
    if pick < 3:
        pool = BORDERS if allow_out else [b for b in BORDERS if ref.key_category(b)]
        return draw(st.sampled_from(pool))
    if pick < 9 or not allow_out:
        return draw(st.one_of(st.integers(1, 999), st.integers(2000, 2499)))
    return draw(st.one_of(st.integers(1000, 1999), st.integers(2500, 3000), st.just(0)))


def strategy_extract(tier):
    size = BOUNDS[tier]["max_atoms"]

    @st.composite
    def build(draw):
        pkg_keys = ["1P", "2P", "10P"]
        out_budget = [1 if draw(st.sampled_from(range(10))) < 3 else 0]
        small_pool = [str(draw(_key_number(False))) for _ in range(4)]

        @st.composite
        def atom(draw2):
            kind = draw2(st.sampled_from(["key"] * 7 + ["pkg", "pkg", "time"]))
            if kind == "pkg":
                return ["pkg", draw2(st.sampled_from(pkg_keys)), draw2(st.sampled_from([None, None, "0..1", "1..3"]))]
            if kind == "time":
                return ["time", draw2(st.sampled_from(["UB1", "UB2", "UB3"]))]
            if draw2(st.sampled_from(range(3))) == 0:
                text = draw2(st.sampled_from(small_pool))  # repeated keys
            else:
                allow_out = out_budget[0] > 0
                number = draw2(_key_number(allow_out))
                if ref.key_category(number) is None:
                    out_budget[0] -= 1
                text = str(number)
                if draw2(st.sampled_from(range(25))) == 0:
                    text = "0" + text
            category = ref.key_category(int(text)) or "rc"
            return [category, text]

        table = {}
        for key in pkg_keys:
            body = draw(gen.g_expr(max_atoms=3, atom=st.builds(lambda n: [ref.key_category(n), str(n)], _key_number(False)) | st.sampled_from([["time", "UB1"], ["time", "UB3"], ["pkg", "2P", None]])))
            table[key] = ref.canonical(body)
        a_ast = draw(gen.g_expr(max_atoms=size, atom=atom()))
        b_ast = draw(gen.g_expr(max_atoms=size, atom=atom()))
        a_text = gen.render(draw, a_ast, redundant=False, top=False)
        b_text = gen.render(draw, b_ast, redundant=False, top=False)
        is_ahb = draw(st.sampled_from([False, False, True]))
        if is_ahb:
            ind_a = draw(gen.indicator_text(gen.MODAL_WORDS))
            ind_b = draw(gen.indicator_text(gen.MODAL_WORDS))
            a_full, b_full = f"{ind_a} {a_text} ", f"{ind_b} {b_text} "
            text = a_full + b_full
        else:
            op = draw(st.sampled_from(["U", "O", "X", "u", "∧", "∨", "⊻", ""]))
            a_full, b_full = a_text, b_text
            text = f"({a_text}){draw(gen.ws())}{op}{draw(gen.ws())}({b_text})"
        used = sorted({a[1] for ast in (a_ast, b_ast) for a in ref.atoms_of(ast) if a[0] == "pkg"})
        return {"a": {"ast": a_ast, "s": a_full}, "b": {"ast": b_ast, "s": b_full}, "s": text, "is_ahb": is_ahb,
                "table": table, "used": used, "resolve": draw(st.booleans())}  # fmt: skip

    return build()


STAGES = [
    Stage(name="extract", kind="hyp", check=check_extract, classify=classify_extract, strategy=strategy_extract,
          budget={"quick": 250, "thorough": 4000}, key=lambda c: [c["s"], c["resolve"]],
          floors={"all-in-range": 0.5, "rejected": 0.06, "repeated-key": 0.2, "border-key": 0.3, "with-resolution": 0.15},
          sample=lambda c: {"s": c["s"], "resolve": c["resolve"]}),
    Stage(name="enumeration", kind="enum", check=check_enumeration,
          classify=lambda c, i: ([f"m={len(c['rc'])}", f"n={len(c['fc'])}"], len(c["rc"]) >= 1 and len(c["fc"]) >= 1),
          enumerate=enumerate_grid, exhaustive=True,
          sample=lambda c: {"requirement_keys": c["rc"], "format_keys": c["fc"], "hint_keys": c["hints"]}),
]  # fmt: skip
