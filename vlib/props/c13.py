"""
C13 - Validation covers the AHB tree once, in order; parents dominate children.

Deep AHB trees with valid expressions at every node are generated; a pure reference model (vlib/vtree.py: model)
predicts the exact sequence of (discriminator, status) - or the documented NotImplementedError - from the statement:
document order, nothing below forbidden nodes, own status = indicator x outcome, combined with the parent's status
per the documented table, FILLED/EMPTY suffix by the entered input.
"""

from contextvars import ContextVar

from hypothesis import strategies as st

from vlib import ref, sut, vtree
from vlib import large
from vlib.core import Stage, fail

ID = "C13"
MANIFEST = {
    "category": "exploration",
    "text": "Generated-input search against a reference model: deep AHBs (1-3 root groups, nesting depth <= 2/3, up to 40/120 nodes, segments with free-text and value-pool data elements, every node carrying a valid AHB expression of a documented form over a small key pool incl. several modal marks, packages, hints, format constraints) x content evaluation results incl. UNKNOWN x both soll flags. validate_deep_anwendungshandbuch (and validate_segment_level on drawn sub-trees, and validate_segment_group / validate_segment below an explicitly given required / optional / forbidden parent status; a third of the cases additionally validate twice, with different data, on one long-lived set of the shipped ContentEvaluationResult based evaluators) must return exactly the model's sequence of discriminators - each node once, in document order, nothing below a forbidden node - with the model's status for every group, segment and free-text element (incl. FILLED/EMPTY), or raise NotImplementedError exactly when the model meets an undetermined MUSS/prefix node. In half of the cases a third of the data elements have no discriminator (None) or share one: 'once and in order' is judged by position. Stage wide-groups (enumerated): one group with 66-80 (thorough: up to 260) direct children against the reference model. Half of the trees carry maus' optional ahb_line_index on groups and segments, not increasing along the document.",
    "note": "Trusted: the reference model in vlib/vtree.py (own status, parent table, traversal) and the reference evaluator. The status of value-pool elements is left to C17; here they only have to appear once at their place. Discriminators are unique paths. Process configuration by shard (vlib/sut.py; recorded in replay files): plain / parse caches preheated beyond their size / warnings attributed to ahbicht raised as errors / logging fully enabled with every record rendered; one event loop per process or a new one per call; five process time zones; the hash seed is the shard number; namesakes of ahbicht's marshmallow schema classes are registered. Every registry of evaluators / providers / resolvers that the harness builds (sut.configure) also holds one of each kind that names no EDIFACT format and no format version; these must never be asked.",
    "technique": "property-based testing against a pure reference model of the validation recursion (model-based oracle)",
}
LEVEL = "exploration"
RULE = (
    "AHB tree x content evaluation result x soll flag; non-trivial = tree of depth >= 2 in which the run visits at "
    "least one forbidden inner node that has children and at least one optional parent above a node whose own status "
    "is required; distinct by case"
)
ASSUMPTIONS = [
    "all expressions are valid (C16 covers invalid ones); discriminators are unique",
    "value-pool statuses are judged by C17, not here",
]
BOUNDS = {"quick": {"max_nodes": 40, "max_depth": 2}, "thorough": {"max_nodes": 120, "max_depth": 3}}


_CER = ContextVar("c13_cer", default=None)


def _api():
    from ahbicht.validation.validation import validate_deep_anwendungshandbuch, validate_segment_level

    return validate_deep_anwendungshandbuch, validate_segment_level


def _kinds(tree):
    return {node["d"]: kind for kind, node, _ in vtree.nodes(tree)}


def compare(expected, res, tree, what):
    """expected: list of (d, status) or 'NIE'; res: sut result"""
    kinds = _kinds(tree)
    if expected == "NIE":
        if res.ok:
            fail("undetermined", f"{what}: an undetermined MUSS/prefix node is visited, but a result was returned")
        if not res.is_a(NotImplementedError):
            fail("foreign-exception", f"{what}: raised {res!r}, expected the documented NotImplementedError")
        return
    if not res.ok:
        fail("raises", f"{what}: raised {res!r}, the model expects {len(expected)} results")
    got = vtree.result_rows(res.value)
    got_ids = [d for d, _ in got]
    expected_ids = [d for d, _ in expected]
    if got_ids != expected_ids:
        missing = [d for d in expected_ids if d not in got_ids]
        extra = [d for d in got_ids if d not in expected_ids]
        twice = sorted({d for d in got_ids if got_ids.count(d) > 1})
        fail("coverage-order", f"{what}: reported nodes differ from document order; missing {missing[:4]}, "
             f"unexpected {extra[:4]}, repeated {twice[:4]}; got {got_ids[:12]}..., expected {expected_ids[:12]}...")  # fmt: skip
    for position, ((d, status), (_, want)) in enumerate(zip(got, expected)):
        if want is None:
            continue  # a value pool element: present at its place, its status is C17's subject
        if status != want:
            fail("status", f"{what}: row {position}, node {d} ({kinds.get(d, 'data element')}) reported {status}, the documented "
                 f"mapping/table gives {want}")  # fmt: skip


def check(case):
    deep, level = _api()
    tree, cer, soll = case["tree"], case["cer"], case["soll"]
    info = {"nie": False, "forbidden_inner": False, "optional_over_required": False, "depth": 0, "nodes": 0}
    try:
        expected = vtree.model(tree, cer["rc"], soll)
    except vtree.ModelNotImplemented:
        expected = "NIE"
        info["nie"] = True
    vtree.setup(tree, cer)
    res = sut.call(deep, vtree.build(tree), soll)
    compare(expected, res, tree, f"validate_deep_anwendungshandbuch(soll_is_required={soll})")
    # a sub-tree on its own
    candidates = [(kind, node) for kind, node, _ in vtree.nodes(tree) if kind in ("group", "seg")]
    kind, node = candidates[case["sub"] % len(candidates)]
    try:
        sub_expected = vtree.model(tree, cer["rc"], soll, roots=[node])
    except vtree.ModelNotImplemented:
        sub_expected = "NIE"
    vtree.setup(tree, cer)
    built = vtree.build_group(node) if kind == "group" else vtree.build_segment(node)
    res = sut.call(level, built, soll)
    compare(sub_expected, res, tree, f"validate_segment_level({node['d']}, soll_is_required={soll})")
    # the same sub-tree below an explicitly given parent status (the functions the recursion itself uses)
    from ahbicht.models.validation_values import RequirementValidationValue
    from ahbicht.validation.validation import validate_segment, validate_segment_group

    parent = case.get("parent")
    if parent is not None:
        try:
            sub_expected = vtree.model(tree, cer["rc"], soll, roots=[node], parent=parent)
        except vtree.ModelNotImplemented:
            sub_expected = "NIE"
        vtree.setup(tree, cer)
        func = validate_segment_group if kind == "group" else validate_segment
        built = vtree.build_group(node) if kind == "group" else vtree.build_segment(node)
        res = sut.call(func, built, getattr(RequirementValidationValue, parent), soll)
        compare(sub_expected, res, tree, f"{func.__name__}({node['d']}, parent={parent}, soll_is_required={soll})")
        info["parent"] = parent
    # one long-lived set of the shipped ContentEvaluationResult based evaluators, two validations with different data
    if case.get("cer2") is not None:
        sut.setup_cer_based(_CER)
        for round_number, data in enumerate((cer, case["cer2"])):
            _CER.set(sut.make_cer(rc=data["rc"], fc=data["fc"], hints=data["hints"], packages=tree["table"]))
            try:
                round_expected = vtree.model(tree, data["rc"], soll)
            except vtree.ModelNotImplemented:
                round_expected = "NIE"
            res = sut.call(deep, vtree.build(tree), soll)
            compare(round_expected, res, tree, f"validation {round_number + 1} of 2 on one long-lived evaluator set "
                    f"(rc={data['rc']}, soll_is_required={soll})")  # fmt: skip
        info["long_lived"] = True
    if expected != "NIE":
        _annotate(tree, cer, soll, dict(expected), info)
    return info


def _annotate(tree, cer, soll, statuses, info):
    info["nodes"] = len(statuses)

    def walk(group, depth, parent_status):
        info["depth"] = max(info["depth"], depth)
        status = statuses.get(group["d"])
        if status is None:
            return
        if status == "IS_FORBIDDEN" and depth > 0 and (group["groups"] or group["segs"]):
            info["forbidden_inner"] = True
        children = [(g, True) for g in group["groups"]] + [(s, False) for s in group["segs"]]
        for child, is_group in children:
            child_status = statuses.get(child["d"])
            if status == "IS_OPTIONAL" and child_status is not None and not child["expr"].get("fault"):
                try:
                    if vtree.own_status(child["expr"], cer["rc"], soll) == "IS_REQUIRED":
                        info["optional_over_required"] = True
                except vtree.ModelNotImplemented:
                    pass
            if is_group:
                walk(child, depth + 1, status)
            elif child_status == "IS_FORBIDDEN" and child["des"]:
                info["forbidden_inner"] = True

    for root in tree["groups"]:
        walk(root, 0, None)


def classify(case, info):
    labels = ["soll=" + str(case["soll"]), "explicit-parent=" + str(info.get("parent"))]
    if info.get("long_lived"):
        labels.append("long-lived-evaluators")
    if info["nie"]:
        labels.append("expects-NotImplementedError")
    else:
        labels.append(f"depth={info['depth']}")
        if info["forbidden_inner"]:
            labels.append("forbidden-inner-node")
        if info["optional_over_required"]:
            labels.append("optional-over-required")
    nontrivial = info["depth"] >= 1 and info["forbidden_inner"] and info["optional_over_required"]
    return labels, nontrivial


def strategy(tier):
    bounds = BOUNDS[tier]

    @st.composite
    def build(draw):
        tree = draw(vtree.g_tree(max_nodes=bounds["max_nodes"], max_depth=bounds["max_depth"]))
        if draw(st.booleans()):
            vtree.line_indexes(draw, tree)  # ahb_line_index present and not increasing: document order is the list order
        if draw(st.booleans()):
            vtree.anonymise(draw, tree)  # data elements without / with a shared discriminator: "once, in order" by position
        return {"tree": tree, "cer": draw(vtree.g_cer()), "soll": draw(st.booleans()), "sub": draw(st.integers(0, 200)),
                "parent": draw(st.sampled_from([None, "IS_REQUIRED", "IS_OPTIONAL", "IS_OPTIONAL", "IS_FORBIDDEN"])),
                "cer2": draw(vtree.g_cer()) if draw(st.sampled_from(range(3))) == 0 else None}

    return build()


def sample(case):
    return {"soll_is_required": case["soll"], "rc": case["cer"]["rc"],
            "nodes": [(node["d"], node["expr"]["s"] if "expr" in node else [e["expr"]["s"] for e in node["pool"]])
                      for _, node, _ in vtree.nodes(case["tree"])][:10]}  # fmt: skip


STAGES = [
    Stage(name="trees", kind="hyp", check=check, classify=classify, strategy=strategy,
          budget={"quick": 150, "thorough": 1000},
          floors={"forbidden-inner-node": 0.1, "optional-over-required": 0.1, "expects-NotImplementedError": 0.05},
          sample=sample),
    large.stage("wide-groups", large.c13_check, large.c13_cases),
]  # fmt: skip
