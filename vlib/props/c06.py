"""
C06 - Expression validity is structural; validity check and evaluation agree.

Expressions of the evaluation domain, valid and invalid, are generated as ASTs; the structural criterion of the
statement is computed on the AST.  Stage `evaluation`: the tree evaluator must raise InvalidExpressionError under
every assignment of an invalid expression and under none of a valid one.  Stage `ahb`: the same through
evaluate_ahb_expression_tree for AHB expressions of 1-3 parts, plus is_valid_expression (string and tree).
"""

from contextvars import ContextVar

from hypothesis import strategies as st

from vlib import evalhelp, gen, ref, sut
from vlib.core import Stage, fail

ID = "C06"
MANIFEST = {
    "category": "exploration",
    "text": "Generated-input search: unconstrained expressions of the evaluation domain (about half invalid by injecting a neutral-only operand into an O/X over rc-carrying operands, or a bare hint/bare format-constraint pair, at any depth) are judged by the structural criterion computed on the generating AST. The tree evaluator must raise InvalidExpressionError under every one of the 3^m assignments (all when <= 243, else 60 sampled incl. the three constant ones) iff the criterion says invalid; wrapped into AHB expressions of 1-3 parts the same must hold for evaluate_ahb_expression_tree (3^m*2^n content evaluation results) and is_valid_expression must answer (False, reason) resp. (True, None) for the string and for the resolved tree. One slice is enumerated completely: every expression with up to 3 (thorough: 4) atoms over the keys [1], [2], [501], [901], [902] (3 023 / 122 780 expressions, more than half of them invalid) under all assignments. The AHB stage also evaluates through the shipped ContentEvaluationResult based evaluators with data that contain additional unused entries. A sixth of the AHB cases combine two and-operands that each carry a requirement constraint and a bracketed group of two format constraints (the collected expression then nests brackets).",
    "note": "Trusted: ref.validity (structural criterion) and the generator. Expressions whose validity would depend on the unspecified grouping inside an n-ary all-neutral O/X run are never generated. is_valid_expression is only given AHB expressions (with an indicator), as documented. Bounded: <= 10/16 atoms, m+n <= 5 for is_valid_expression. Process configuration by shard (vlib/sut.py; recorded in replay files): plain / parse caches preheated beyond their size / warnings attributed to ahbicht raised as errors / logging fully enabled with every record rendered; one event loop per process or a new one per call; five process time zones; the hash seed is the shard number; namesakes of ahbicht's marshmallow schema classes are registered. Every registry of evaluators / providers / resolvers that the harness builds (sut.configure) also holds one of each kind that names no EDIFACT format and no format version; these must never be asked.",
    "technique": "property-based testing against a structural reference predicate, with exhaustive assignment enumeration per expression",
}
LEVEL = "exploration"
RULE = (
    "expression (valid or invalid by construction) x all/sampled assignments; a case is non-trivial if it is invalid "
    "with the offending O/X node strictly below the root, or valid while containing an O/X over neutral-only "
    "operands or a hint+fc juxtaposition under O/X; distinct by string"
)
ASSUMPTIONS = [
    "evaluation domain as in C04 (juxtaposition attaches one fc key to a bare hint or to an rc-carrying operand)",
    "is_valid_expression / evaluate_ahb_expression_tree receive AHB expressions (indicator + condition), as every caller does",
    "format constraints in content evaluation results: fulfilled ones carry no message",
]
BOUNDS = {"quick": {"max_atoms": 10}, "thorough": {"max_atoms": 16}}

_CER = ContextVar("c06_cer", default=None)


def _offending_depth(node, depth=0):
    """minimal depth of an O/X node that violates the criterion, or None"""
    if ref.is_atom(node):
        return None
    found = None
    if node[0] in ("or", "xor"):
        flags = [ref.has_rc(c) for c in node[1]]
        bare = {c[0] for c in node[1] if c[0] in ("hint", "fc")}
        if (any(flags) and not all(flags)) or (not any(flags) and bare == {"hint", "fc"} and len(node[1]) == 2):
            found = depth
    for child in node[1]:
        sub = _offending_depth(child, depth + 1)
        if sub is not None and (found is None or sub < found):
            found = sub
    return found


def _interesting_valid(node):
    """valid expression containing an O/X over neutral-only operands, or a hint+fc juxtaposition under an O/X"""
    if ref.is_atom(node):
        return False
    if node[0] in ("or", "xor"):
        if not any(ref.has_rc(c) for c in node[1]):
            return True
    return any(_interesting_valid(c) for c in node[1])


def _assignments(case, keys):
    if case["assignments"] == "all":
        return list(ref.product_assignments(keys))
    return case["assignments"]


def check_evaluation(case):
    api = evalhelp.api()
    ast, text = case["ast"], case["s"]
    verdict = ref.validity(ast)
    if verdict == "ambiguous" or not ref.in_evaluation_domain(ast):
        raise AssertionError(f"generator produced an ambiguous/out-of-domain expression: {ast}")
    keys = ref.keys_of(ast, "rc")
    raised, returned = 0, 0
    for assignment in _assignments(case, keys):
        parsed = sut.call(api.parse_cond, text)
        if not parsed.ok:
            fail("parse", f"well-formed expression {text!r} was not parsed: {parsed!r}")
        res = sut.call(lambda: api.evaluate_requirement_constraint_tree(parsed.value, evalhelp.input_nodes(ast, assignment)))
        if res.ok:
            returned += 1
            if verdict == "invalid":
                fail("invalid-not-raised", f"{text!r} is invalid by structure but evaluated under {assignment} "
                     f"to {sut.letter(res.value.conditions_fulfilled)}")  # fmt: skip
        elif res.is_a(sut.InvalidExpressionError):
            raised += 1
            if verdict == "valid":
                fail("valid-raised", f"{text!r} is valid by structure but raised under {assignment}: {res!r}")
        else:
            fail("foreign-exception", f"{text!r} under {assignment} raised {res!r}")
    return {"verdict": verdict, "assignments": raised + returned}


def classify(case, info):
    ast = case["ast"] if "ast" in case else None
    labels = ["verdict=" + info["verdict"]]
    nontrivial = False
    asts = [ast] if ast is not None else [p[1] for p in case["parts"] if p[1] is not None]
    for node in asts:
        depth = _offending_depth(node)
        if depth is not None:
            labels.append("offending-below-root" if depth > 0 else "offending-at-root")
            nontrivial = nontrivial or depth > 0
        elif _interesting_valid(node):
            labels.append("valid-neutral-composition")
            nontrivial = True
    if ast is None:
        labels.append(f"parts={len(case['parts'])}")
        if len(asts) > 1 and info["verdict"] == "invalid":
            nontrivial = True
    return sorted(set(labels)), nontrivial


def _setup_cer_based():
    sut.setup_cer_based(_CER)


def check_ahb(case):
    from ahbicht.content_evaluation import is_valid_expression

    api = evalhelp.api()
    parts = case["parts"]  # [[indicator, ast | None], ...]
    text = case["s"]
    asts = [p[1] for p in parts if p[1] is not None]
    verdicts = [ref.validity(a) for a in asts]
    if "ambiguous" in verdicts or not all(ref.in_evaluation_domain(a) for a in asts):
        raise AssertionError(f"generator produced an ambiguous/out-of-domain expression: {parts}")
    verdict = "invalid" if "invalid" in verdicts else "valid"
    rc_keys, fc_keys, hint_keys = [], [], []
    for ast in asts:
        for kind, acc in (("rc", rc_keys), ("fc", fc_keys), ("hint", hint_keys)):
            for key in ref.keys_of(ast, kind):
                if key not in acc:
                    acc.append(key)
    tree = sut.call(api.resolve, text)
    if not tree.ok:
        fail("parse", f"well-formed AHB expression {text!r} was not resolved: {tree!r}")
    # (1) evaluation under assignments x truth values
    count = 0
    for assignment in _assignments(case, rc_keys):
        for truth in case["truths"]:
            sut.setup_hardcoded(sut.make_cer(rc=assignment, fc=truth, hints=gen.hints_for(hint_keys)))
            res = sut.call(api.evaluate_ahb_expression_tree, sut.call(api.resolve, text).value)
            count += 1
            if res.ok:
                if verdict == "invalid":
                    fail("invalid-not-raised", f"{text!r} is invalid by structure but evaluate_ahb_expression_tree "
                         f"returned under rc={assignment} fc={truth}")  # fmt: skip
            elif res.is_a(sut.InvalidExpressionError):
                if verdict == "valid":
                    fail("valid-raised", f"{text!r} is valid by structure but raised under rc={assignment} fc={truth}: {res!r}")
            else:
                fail("foreign-exception", f"{text!r} under rc={assignment} fc={truth} raised {res!r}")
    # (1b) the same through the shipped ContentEvaluationResult based evaluators, whose data also contain entries for
    # keys that the expression does not mention (a result usually covers a whole message)
    for assignment in list(_assignments(case, rc_keys))[:2]:
        _setup_cer_based()
        _CER.set(sut.make_cer(rc=assignment, fc=case["truths"][-1], hints=gen.hints_for(hint_keys), extras=True))
        res = sut.call(api.evaluate_ahb_expression_tree, sut.call(api.resolve, text).value)
        if res.ok:
            if verdict == "invalid":
                fail("invalid-not-raised", f"{text!r} is invalid by structure but evaluate_ahb_expression_tree (ContentEvaluationResult "
                     f"based evaluators) returned under rc={assignment}")  # fmt: skip
        elif res.is_a(sut.InvalidExpressionError):
            if verdict == "valid":
                fail("valid-raised", f"{text!r} is valid by structure but raised with ContentEvaluationResult based evaluators "
                     f"under rc={assignment}: {res!r}")  # fmt: skip
        else:
            fail("foreign-exception", f"{text!r} with ContentEvaluationResult based evaluators (data with additional, unused "
                 f"entries) under rc={assignment} raised {res!r}")  # fmt: skip
    # (2) the validity check, for the string and for the tree
    if case["validity_check"]:
        _setup_cer_based()
        for what, arg in (("string", text), ("tree", tree.value)):
            if len(text) % 2:
                res = sut.call(is_valid_expression, expression_or_tree=arg, content_evaluation_result_setter=_CER.set)
            else:
                res = sut.call(is_valid_expression, arg, _CER.set)
            if not res.ok:
                fail("validity-raises", f"is_valid_expression({what} of {text!r}) raised {res!r}")
            value = res.value
            if verdict == "valid" and value != (True, None):
                fail("validity-verdict", f"is_valid_expression({what} of {text!r}) = {value!r} for a valid expression")
            if verdict == "invalid" and not (
                isinstance(value, tuple) and len(value) == 2 and value[0] is False and isinstance(value[1], str) and value[1]
            ):
                fail("validity-verdict", f"is_valid_expression({what} of {text!r}) = {value!r} for an invalid expression")
    return {"verdict": verdict, "assignments": count}


# --------------------------------------------------------------------------------------------------- generators


def _sampled_assignments(draw, keys, limit=5, sample=60):
    if len(keys) <= limit:
        return "all"
    out = [dict.fromkeys(keys, v) for v in "FUK"]
    out += [draw(gen.rc_assignment(keys)) for _ in range(sample - 3)]
    return out


def strategy_evaluation(tier):
    size = BOUNDS[tier]["max_atoms"]

    @st.composite
    def build(draw):
        if draw(st.booleans()):
            ast = draw(gen.g_dom(max_atoms=size, mode="valid"))
        else:
            ast = draw(gen.g_dom_invalid(max_atoms=size))
        return {"ast": ast, "s": gen.render(draw, ast), "assignments": _sampled_assignments(draw, ref.keys_of(ast, "rc"))}

    return build()


def strategy_ahb(tier):
    size = max(4, BOUNDS[tier]["max_atoms"] // 2)
    plain_pools = {"rc": gen.RC_POOL[:4], "hint": gen.HINT_POOL[:3], "fc": gen.FC_POOL[:3]}
    # the grammar admits leading zeros ([01] is requirement constraint 1, [0501] a hint); the key is the written text
    zero_pools = {"rc": ["01", "0499", "2000", "02499"], "hint": ["0500", "900", "0501"], "fc": ["0901", "999", "0902"]}

    @st.composite
    def build(draw):
        pools = zero_pools if draw(st.sampled_from(range(4))) == 0 else plain_pools
        shape = draw(gen.g_ahb_shape(max_parts=3, bare_ok=True))
        parts, rendered = [], []
        for indicator, has_cond in shape:
            # upper-case prefix operators only: the lower-case defect (C09/F9) must not mask this property
            if indicator.upper() in ("X", "O", "U") and len(indicator) == 1:
                indicator = indicator.upper()
            ast = None
            cond = None
            if has_cond and draw(st.sampled_from(range(6))) == 0:
                # two bracketed compositions of operands that each carry a format constraint: the collected expression
                # then is a composition of two bracketed multi-key parts, "([901] U [902]) O ([903] U [901])"
                def pair():
                    rc_atom = ["rc", draw(st.sampled_from(pools["rc"]))]
                    if grouped:
                        # ... or a requirement constraint and-ed with a bracketed group of format constraints: the
                        # collected expression then nests brackets, "(([901] O [902])) X (([903] O [901]))"
                        group = [draw(st.sampled_from(["or", "xor", "and"])), [["fc", draw(st.sampled_from(pools["fc"]))] for _ in range(2)]]
                        return ["and", [rc_atom, group] if draw(st.booleans()) else [group, rc_atom]]
                    return ["then", [rc_atom, ["fc", draw(st.sampled_from(pools["fc"]))]]]

                grouped = draw(st.booleans())

                kinds = [draw(st.sampled_from(["and", "or", "xor"])) for _ in range(3)]
                ast = [kinds[0], [pair(), pair()]] if grouped else [kinds[0], [[kinds[1], [pair(), pair()]], [kinds[2], [pair(), pair()]]]]
                cond = gen.render(draw, ast, redundant=False, top=False)
            elif has_cond:
                if draw(st.sampled_from([True, True, False])):
                    # half of the valid ones with many attached format constraints: the collected expression that the
                    # AHB evaluation re-parses and evaluates then has some structure of its own
                    ast = draw(gen.g_dom(max_atoms=size + 2, mode="valid", pools=pools, fc_dense=draw(st.booleans())))
                else:
                    ast = draw(gen.g_dom_invalid(max_atoms=size, pools=pools))
                cond = gen.render(draw, ast, redundant=False, top=False)
            parts.append([indicator, ast])
            rendered.append((indicator, cond))
        text = gen.render_ahb(draw, rendered)
        asts = [p[1] for p in parts if p[1] is not None]
        rc_keys = sorted({k for a in asts for k in ref.keys_of(a, "rc")})
        fc_keys = sorted({k for a in asts for k in ref.keys_of(a, "fc")})
        truths = [dict.fromkeys(fc_keys, True)]
        if fc_keys:
            truths.append(draw(gen.fc_truth(fc_keys)))
        assignments = _sampled_assignments(draw, rc_keys, limit=3, sample=12)
        if assignments != "all" and dict.fromkeys(rc_keys, "F") not in assignments:
            assignments.append(dict.fromkeys(rc_keys, "F"))  # everything attached is binding
        return {"parts": parts, "s": text, "assignments": assignments,
                "truths": truths, "validity_check": len(rc_keys) + len(fc_keys) <= 5 and bool(asts)}  # fmt: skip

    return build()


SMALL = {"quick": 3, "thorough": 4}


def enumerate_small(tier, shard, nshards, seed):  # pylint:disable=unused-argument
    """every expression (valid or invalid) with up to 3 (thorough: 4) atoms over {[1], [2], [501], [901], [902]}"""
    for index, ast in enumerate(ref.enumerate_small_dom(SMALL[tier])):
        if index % nshards == shard:
            yield {"ast": ast, "s": ref.canonical(ast), "assignments": "all"}


STAGES = [
    Stage(name="evaluation", kind="hyp", check=check_evaluation, classify=classify, strategy=strategy_evaluation,
          budget={"quick": 200, "thorough": 3000}, key=lambda c: c["s"],
          floors={"verdict=valid": 0.3, "verdict=invalid": 0.3},
          sample=lambda c: {"s": c["s"], "structurally": ref.validity(c["ast"])}),
    Stage(name="small-scope", kind="enum", check=check_evaluation, classify=classify, enumerate=enumerate_small,
          exhaustive=True, key=lambda c: c["s"], sample=lambda c: {"s": c["s"], "structurally": ref.validity(c["ast"])}),
    Stage(name="ahb", kind="hyp", check=check_ahb, classify=classify, strategy=strategy_ahb,
          budget={"quick": 60, "thorough": 800}, key=lambda c: c["s"],
          floors={"verdict=valid": 0.3, "verdict=invalid": 0.15},
          sample=lambda c: {"s": c["s"]}),
]  # fmt: skip
