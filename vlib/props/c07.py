"""
C07 - Collected format-constraint expression is well-formed and meaning-preserving.

For a valid source expression and an rc assignment the real requirement evaluation returns a format-constraint
expression (a string assembled by FormatConstraintExpressionBuilder).  Form: absent, or accepted by the reference
recogniser, built only from and/or/xor over keys of the source's format constraints.  Meaning: under every truth
assignment, evaluating that string with the *real* format-constraint evaluator must equal the direct reading of the
source AST (vlib/ref.py: fc_direct).
"""

import itertools

from hypothesis import strategies as st

from vlib import evalhelp, gen, ref, sut
from vlib import large
from vlib.core import Stage, fail

ID = "C07"
MANIFEST = {
    "category": "exploration",
    "text": "Generated-input search: valid, format-constraint-dense expressions (juxtapositions on either side of atoms and of bracketed compositions, >= 3 fc keys under different operators) x rc assignments (all 3^k for k<=3, else 10 sampled) x all 2^n truth assignments of the fc keys (n<=5). The collected expression must be None or be accepted by the reference recogniser, contain only U/O/X compositions over fc keys of the source, and - evaluated by the real format_constraint_evaluation - equal the direct reading computed on the generating AST (attached constraint binding iff its operand is FULFILLED or a hint; operands contributing nothing are omitted; nothing counts as fulfilled). One slice is enumerated completely: every valid expression with at least one format constraint and up to 3 (thorough: 4) atoms over the keys [1], [2], [501], [901], [902], under all rc and truth assignments. Stage long-collected (enumerated): 65-80 (thorough: 33-200) operands [1][901] plus one [1][902] joined by one operator, [1] fulfilled; the collected expression must be evaluable and equal the Boolean fold under all four truth assignments. A third of the attachments are bracketed compositions of two format constraints on the right (the direct reading evaluates the group). Every second truth assignment is served by constraints that carry no message of their own when unfulfilled.",
    "note": "Trusted: ref.fc_direct / ref.state (reference reading), ref.accepts_condition, the generator. The string round trip through the real parser and FormatConstraintTransformer is part of what is tested (C08 checks that evaluator separately). Bounded: <= 12/24 atoms, <= 5 fc keys. Process configuration by shard (vlib/sut.py; recorded in replay files): plain / parse caches preheated beyond their size / warnings attributed to ahbicht raised as errors / logging fully enabled with every record rendered; one event loop per process or a new one per call; five process time zones; the hash seed is the shard number; namesakes of ahbicht's marshmallow schema classes are registered. Every registry of evaluators / providers / resolvers that the harness builds (sut.configure) also holds one of each kind that names no EDIFACT format and no format version; these must never be asked.",
    "technique": "property-based testing against a reference interpretation, exhaustive over truth assignments per expression",
}
LEVEL = "exploration"
RULE = (
    "valid fc-dense expression x rc assignment x all truth assignments; one unit = (string, rc assignment); "
    "non-trivial = >= 2 fc keys, at least one attached to a non-atomic operand, and under this rc assignment at "
    "least one attached constraint is not binding; distinct by (string, rc assignment)"
)
ASSUMPTIONS = ["evaluation domain as in C04; at most 5 distinct format-constraint keys per expression"]
BOUNDS = {"quick": {"max_atoms": 12}, "thorough": {"max_atoms": 24}}
FC_KEYS = ["901", "902", "903", "950", "999"]


def _attached_to_composite(node):
    if ref.is_atom(node):
        return False
    if node[0] == "then" and not ref.is_atom(ref.then_parts(node)[1]):
        return True
    return any(_attached_to_composite(c) for c in node[1])


def check(case):
    api = evalhelp.api()
    ast, text = case["ast"], case["s"]
    fc_keys = ref.keys_of(ast, "fc")
    rc_keys = ref.keys_of(ast, "rc")
    assignments = case["assignments"] if case["assignments"] != "all" else list(ref.product_assignments(rc_keys))
    units = []
    two_ops = False
    composite = _attached_to_composite(ast)
    shared_tree = sut.call(api.parse_cond, text)
    if not shared_tree.ok:
        fail("evaluation-raises", f"valid expression {text!r} was not parsed: {shared_tree!r}")
    for assignment in assignments:
        evalhelp.setup_for(ast, assignment)
        res = sut.call(api.requirement_constraint_evaluation, text)
        if not res.ok:
            fail("evaluation-raises", f"requirement_constraint_evaluation({text!r}) under {assignment} raised {res!r}")
        fce = res.value.format_constraints_expression
        # the same from an already parsed tree, which is re-used for all assignments (parse once, evaluate often)
        evalhelp.setup_for(ast, assignment)
        from_tree = sut.call(api.requirement_constraint_evaluation, shared_tree.value)
        if not from_tree.ok:
            fail("evaluation-raises", f"requirement_constraint_evaluation(tree of {text!r}) under {assignment} raised {from_tree!r}")
        if from_tree.value.format_constraints_expression != fce:
            fail("tree-route", f"{text!r} under {assignment}: the collected expression is {fce!r} for the string but "
                 f"{from_tree.value.format_constraints_expression!r} for its (re-used) parsed tree")  # fmt: skip
        # ---- form
        if fce is not None:
            if not isinstance(fce, str) or not ref.accepts_condition(fce):
                fail("form", f"{text!r} under {assignment}: collected expression {fce!r} is not a well-formed expression")
            parsed = sut.call(api.parse_cond, fce)
            if not parsed.ok:
                fail("form", f"{text!r} under {assignment}: collected expression {fce!r} does not parse: {parsed!r}")
            shape = ref.tree_to_ast(parsed.value)
            if shape is None:
                fail("form", f"collected expression {fce!r} has an unexpected tree")
            bad = [a for a in ref.atoms_of(shape) if a[0] != "fc" or a[1] not in fc_keys]
            if bad:
                fail("form-keys", f"{text!r}: collected expression {fce!r} contains {bad}, not format constraints of the source")

            def only_bool(node):
                return ref.is_atom(node) or (node[0] in ("and", "or", "xor") and all(only_bool(c) for c in node[1]))

            if not only_bool(shape):
                fail("form", f"collected expression {fce!r} contains a juxtaposition")
            ops = {n[0] for _, n in ref.sites(shape) if not ref.is_atom(n)}
            two_ops = two_ops or len(ops) >= 2
        # ---- meaning
        for combo in itertools.product([True, False], repeat=len(fc_keys)):
            truth = dict(zip(fc_keys, combo))
            expected = ref.fc_direct(ast, assignment, truth)
            expected = True if expected is None else expected
            if fce is None:
                value = True
            else:
                # every second truth assignment is served by constraints that give no message of their own when they
                # are unfulfilled (the shipped dict / result based evaluators hand such constraints on as they are)
                silent = sum(combo) % 2 == 1
                sut.setup_hardcoded(sut.make_cer(fc={k: (True if v else [False, None]) for k, v in truth.items()} if silent else truth))
                evaluated = sut.call(api.format_constraint_evaluation, fce)
                if not evaluated.ok:
                    fail("not-evaluable", f"collected expression {fce!r} of {text!r} cannot be evaluated: {evaluated!r}")
                value = evaluated.value.format_constraints_fulfilled
            if value != expected:
                fail("meaning", f"{text!r} under rc={assignment} fc={truth}: collected {fce!r} evaluates to {value}, "
                     f"direct reading gives {expected}")  # fmt: skip
        total, loose = ref.fc_binding_info(ast, assignment)
        units.append(([text, assignment], len(fc_keys) >= 2 and composite and loose >= 1))
    return {"_units": units, "two_ops": two_ops}


def classify(case, info):
    ast = case["ast"]
    labels = [f"fc-keys={len(ref.keys_of(ast, 'fc'))}"]
    if info["two_ops"]:
        labels.append("collected-two-operators")
    if _attached_to_composite(ast):
        labels.append("attached-to-composition")
    return labels, any(n for _, n in info["_units"])


def strategy(tier):
    size = BOUNDS[tier]["max_atoms"]

    @st.composite
    def build(draw):
        pools = {"fc": FC_KEYS, "rc": gen.RC_POOL[:5]}
        ast = draw(gen.g_dom(max_atoms=size, mode="valid", pools=pools, fc_dense=True, neutral_root=False, fc_groups=True))
        if not ref.keys_of(ast, "fc"):
            ast = ["then", [ast, ["fc", draw(st.sampled_from(FC_KEYS))]]]
        keys = ref.keys_of(ast, "rc")
        if len(keys) <= 3:
            assignments = "all"
        else:
            assignments = [draw(gen.rc_assignment(keys)) for _ in range(8)]
            assignments += [dict.fromkeys(keys, "F"), draw(gen.rc_assignment(keys, values="FFU"))]
        return {"ast": ast, "s": gen.render(draw, ast), "assignments": assignments}

    return build()


SMALL = {"quick": 3, "thorough": 4}


def enumerate_small(tier, shard, nshards, seed):  # pylint:disable=unused-argument
    """every valid expression with a format constraint and up to 3 (thorough: 4) atoms over the five small keys"""
    index = 0
    for ast in ref.enumerate_small_dom(SMALL[tier]):
        if ref.validity(ast) != "valid" or not ref.keys_of(ast, "fc"):
            continue
        if index % nshards == shard:
            yield {"ast": ast, "s": ref.canonical(ast), "assignments": "all"}
        index += 1


STAGES = [
    Stage(name="collected", kind="hyp", check=check, classify=classify, strategy=strategy,
          budget={"quick": 150, "thorough": 2500},
          floors={"collected-two-operators": 0.15, "attached-to-composition": 0.3},
          sample=lambda c: {"s": c["s"], "assignments": c["assignments"] if c["assignments"] == "all" else c["assignments"][:2]}),
    Stage(name="small-scope", kind="enum", check=check, classify=classify, enumerate=enumerate_small, exhaustive=True,
          sample=lambda c: {"s": c["s"], "assignments": "all"}),
    large.stage("long-collected", large.c07_check, large.c07_cases),
]  # fmt: skip
