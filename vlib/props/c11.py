"""
C11 - Parsing is a pure function of the string, whatever happened before.

A Hypothesis rule-based state machine drives histories of: parsing pool strings with either parser (repeatedly),
parsing fresh strings, editing previously returned trees in place at any depth, flooding the caches with more than
1024 distinct strings (eviction), and evaluating.  After every parse the returned tree is compared with the string's
known structure (cache-independent oracle: the AST the string was rendered from) and with a pristine deep copy taken
the first time the string was parsed in this history.  The executed rule sequence is recorded as a JSON trace, which
is the replayable case.
"""

import copy

from hypothesis import strategies as st
from hypothesis.stateful import RuleBasedStateMachine, initialize, invariant, precondition, rule

from vlib import evalhelp, gen, ref, sut
from vlib.core import Stage, Violation, fail

ID = "C11"
MANIFEST = {
    "category": "exploration",
    "text": "Stateful generated-input search (Hypothesis RuleBasedStateMachine): histories of up to 30 (thorough 60) steps over a pool of condition and AHB expressions with known structure - parse (cache hit or miss), parse a fresh string, send a string through the resolver (which replaces time conditions), use a string as the body of a package and expand it, edit a previously returned tree (incl. the expanded one) in place (replace / delete / append / clear / reverse children, overwrite the rule name, at any depth; overwrite the .value or .type attribute of a token), flood both caches with 1100 distinct strings so that the 1024-entry LRU evicts, evaluate under an assignment. Invariant after every step: the tree returned for a string matches the AST it was rendered from and equals the pristine deep copy of the first parse in this history; evaluation equals the reference evaluator. Caches are cleared at the start of every history. A second stage (cold-start) executes parse / flood / re-parse traces in a freshly started interpreter, so that the first use of both parsers in a process is judged as well; a quarter of the AHB pool strings (half of them there) carry no-break or other Unicode spaces inside their condition parts, which the AHB parser on its own must hand back unchanged. The cold-start traces also contain expressions nested 245-340 levels deep and in-place edits of the returned trees (the child interpreter has the default recursion limit). A further rule parses malformed strings (fixed list, pool strings with one bracket removed), which must be rejected with SyntaxError and leave no trace. Rule twin adds an AHB expression that differs from a pool entry only by more trailing whitespace; condition tokens are compared with the exact written text.",
    "note": "Trusted: ref.match / the AHB split oracle, the reference evaluator, copy.deepcopy of lark trees, Hypothesis' stateful engine. Histories are bounded in length; the flood rule runs at most once per history. Process configuration by shard (vlib/sut.py; recorded in replay files): plain / parse caches preheated beyond their size / warnings attributed to ahbicht raised as errors / logging fully enabled with every record rendered; one event loop per process or a new one per call; five process time zones; the hash seed is the shard number; namesakes of ahbicht's marshmallow schema classes are registered. Every registry of evaluators / providers / resolvers that the harness builds (sut.configure) also holds one of each kind that names no EDIFACT format and no format version; these must never be asked.",
    "technique": "stateful / model-based property testing (rule-based state machine over parse-edit-evict histories with a cache-independent oracle)",
}
LEVEL = "exploration"
RULE = (
    "history = sequence of parse / fresh-parse / in-place edit / flood / evaluate steps; non-trivial = the history "
    "re-parses a string after a tree returned for that same string was edited, or after an eviction flood; distinct "
    "by the executed rule sequence (trace)"
)
ASSUMPTIONS = ["every history starts from empty parse caches (sequences are independent of each other)"]
EDITS = ["replace", "delete", "append", "clear", "reverse", "rename", "replace-root-child", "insert-tree", "token-value", "token-type"]


def _parsers():
    from ahbicht.expressions.ahb_expression_parser import (
        parse_ahb_expression_to_single_requirement_indicator_expressions as parse_ahb,
    )
    from ahbicht.expressions.condition_expression_parser import parse_condition_expression_to_tree as parse_cond

    return parse_cond, parse_ahb


def _verify_ahb(tree, entry):
    """the AHB parser's tree: one child per part, indicator token text, unresolved condition token = written text"""
    from lark import Token, Tree

    text, parts = entry["s"], entry["parts"]
    if not isinstance(tree, Tree) or tree.data != "ahb_expression" or len(tree.children) != len(parts):
        fail("structure", f"AHB parser returned {tree!r} for {text!r}, expected {len(parts)} parts")
    # the exact text of every condition token: everything between two indicators, surrounding whitespace included
    exact, position = [], 0
    for number, (indicator, cond) in enumerate(parts):
        position = text.index(indicator, position) + len(indicator)
        if cond is None:
            exact.append(None)
            continue
        end = text.index(cond, position) + len(cond)
        while end < len(text) and text[end].isspace():
            end += 1
        exact.append(text[position:end])
        position = end
    for child, (indicator, cond), written in zip(tree.children, parts, exact):
        if not isinstance(child, Tree) or not child.children:
            fail("structure", f"AHB parser returned {tree!r} for {text!r}")
        if not isinstance(child.children[0], Token) or str(child.children[0]) != indicator or child.children[0].value != indicator:
            fail("structure", f"{text!r}: indicator {child.children[0]!r} instead of {indicator!r}")
        if cond is None:
            if child.data != "requirement_indicator" or len(child.children) != 1:
                fail("structure", f"{text!r}: bare part became {child!r}")
        else:
            if child.data != "single_requirement_indicator_expression" or len(child.children) != 2:
                fail("structure", f"{text!r}: part became {child!r}")
            token = child.children[1]
            if not isinstance(token, Token) or str(token) != written or token.value != written:
                fail("structure", f"{text!r}: condition part {token!r} instead of {written!r}")


class Interpreter:
    """executes trace steps against the real parsers and checks the invariant; shared by the machine and replay"""

    def __init__(self):
        sut.clear_parse_caches()
        self.pool = []
        self.trees = []  # (pool index, tree) of every tree returned so far
        self.pristine = {}
        self.edited = set()  # pool indexes whose returned trees were edited
        self.flooded = False
        self.reparse_after_edit = 0
        self.reparse_after_flood = 0
        self.deep_reparse_after_edit = 0
        self.parses = 0
        self.floods = 0

    def add(self, entry):
        if entry.get("deep") and "s" not in entry:
            entry = dict(entry, s=deep_text(entry["deep"]))
        self.pool.append(entry)

    def step(self, op):
        kind = op["op"]
        if kind == "add":
            self.add(op["entry"])
        elif kind == "parse":
            self.parse(op["i"] % len(self.pool))
        elif kind == "edit":
            self.edit(op)
        elif kind == "flood":
            self.flood(op["base"])
        elif kind == "resolve":
            self.resolve(op["i"] % len(self.pool))
        elif kind == "expand":
            self.expand(op["i"] % len(self.pool), op.get("time", False))
        elif kind == "evaluate":
            self.evaluate(op["i"] % len(self.pool), op["assignment"])
        elif kind == "reject":
            self.reject(op)
        else:
            raise ValueError(kind)

    def parse(self, index):
        parse_cond, parse_ahb = _parsers()
        entry = self.pool[index]
        text = entry["s"]
        res = sut.call(parse_ahb if entry["kind"] == "ahb" else parse_cond, text)
        if not res.ok:
            fail("rejected", f"{text!r} was parsed before / is well-formed but now raised {res!r}")
        tree = res.value
        self.parses += 1
        if index in self.edited:
            self.reparse_after_edit += 1
            if entry.get("deep"):
                self.deep_reparse_after_edit += 1
        if self.flooded:
            self.reparse_after_flood += 1
        history = f"(after {len(self.edited)} edited strings, {self.floods} floods)"
        # cache-independent oracle
        if entry.get("deep"):
            # by construction: keys 1..depth+1 in pre-order, operators alternate, one more level per operand
            rows = ref.dump_tree_flat(tree)
            keys = [row[3] for row in rows if row[1] == "token"]
            if keys != [str(k) for k in range(1, entry["deep"] + 2)] or max(row[0] for row in rows) != entry["deep"] + 1:
                fail("structure", f"the expression nested {entry['deep']} levels deep parsed to a tree with {len(keys)} keys and depth "
                     f"{max(row[0] for row in rows)} {history}")  # fmt: skip
        elif entry["kind"] == "ahb":
            try:
                _verify_ahb(tree, entry)
            except Violation as violation:
                fail("structure", f"{violation.message} {history}")
        elif not ref.match(tree, entry["ast"]):
            fail("structure", f"{text!r} parsed to {tree!r}, which is not the expression's structure {history}")
        # history oracle
        key = (entry["kind"], text)
        dump = ref.dump_tree_flat if entry.get("deep") else ref.dump_tree
        if key not in self.pristine:
            self.pristine[key] = dump(tree)
        elif self.pristine[key] != dump(tree):
            fail("history-dependent", f"{text!r}: tree differs from the one returned the first time {history}: {tree!r}")
        self.trees.append((index, tree))

    def edit(self, op):
        from lark import Token, Tree

        if not self.trees:
            return
        index, tree = self.trees[op["t"] % len(self.trees)]
        node = tree
        for step in op["path"]:
            subtrees = [c for c in node.children if isinstance(c, Tree)]
            if not subtrees:
                break
            node = subtrees[step % len(subtrees)]
        kind = op["edit"]
        children = node.children
        position = op["pos"] % len(children) if children else 0
        if kind == "replace" and children:
            children[position] = "junk"
        elif kind == "delete" and children:
            del children[position]
        elif kind == "append":
            children.append(Token("CONDITION_KEY", "4711"))
        elif kind == "clear":
            children.clear()
        elif kind == "reverse":
            children.reverse()
        elif kind == "rename":
            node.data = "or_composition" if node.data != "or_composition" else "and_composition"
        elif kind == "replace-root-child" and tree.children:
            tree.children[position % len(tree.children)] = Tree("condition", [Token("CONDITION_KEY", "1")])
        elif kind == "insert-tree":
            children.insert(position, Tree("junk_rule", [Token("JUNK", "x")]))
        elif kind in ("token-value", "token-type"):
            # lark tokens are str instances, but their .value and .type are plain assignable attributes
            tokens = [t for t in tree.scan_values(lambda v: isinstance(v, Token))]
            if tokens:
                token = tokens[op["pos"] % len(tokens)]
                if kind == "token-value":
                    token.value = "950"
                else:
                    token.type = "PACKAGE_KEY" if token.type != "PACKAGE_KEY" else "CONDITION_KEY"
        self.edited.add(index)

    MALFORMED = ["([1)]", "(([1]U[2]", "[1", ")(", "[1]]", "(((", "[1] U", "[(1])", "((([1]", "[1])))", "[[["]

    def reject(self, op):
        """
        a parse call with a malformed string - also part of the history.  The string is one of a fixed list or a pool
        string with one bracket removed; it must be rejected with SyntaxError (if it happens to be well-formed: parsed).
        """
        parse_cond, _ = _parsers()
        text = self.MALFORMED[op["pos"] % len(self.MALFORMED)]
        entry = self.pool[op["i"] % len(self.pool)]
        if op.get("derive") and entry["kind"] != "ahb" and not entry.get("deep"):
            brackets = [i for i, c in enumerate(entry["s"]) if c in "[]()"]
            cut = brackets[op["pos"] % len(brackets)]
            text = entry["s"][:cut] + entry["s"][cut + 1 :]
        res = sut.call(parse_cond, text)
        wellformed = ref.accepts_condition(text)
        if res.ok != wellformed or (not res.ok and not res.is_a(SyntaxError)):
            fail("rejected", f"{text!r} is {'well-formed' if wellformed else 'malformed'} but the parser gave {str(res)[:200]} "
                 f"(after {self.parses} parses, {self.floods} floods)")  # fmt: skip
        self.rejects = getattr(self, "rejects", 0) + (0 if wellformed else 1)

    def resolve(self, index):
        """the string goes through the resolver (which parses it and replaces time conditions); result not judged here"""
        from ahbicht.expressions.expression_resolver import parse_expression_including_unresolved_subexpressions

        entry = self.pool[index]
        if entry.get("raw") or entry.get("deep"):
            return  # raw: only the AHB parser on its own accepts this spelling; deep: the parsers on their own (C02)
        res = sut.call(parse_expression_including_unresolved_subexpressions, entry["s"], False, True)
        if not res.ok:
            fail("rejected", f"resolver raised {res!r} for the well-formed {entry['s']!r}")
        self.edited.add(index)  # from now on a re-parse of this string counts as 'after the tree was used elsewhere'

    def expand(self, index, replace_time):
        """
        The pool string is used as the body of a package, and an expression using that package is resolved with
        resolve_packages=True.  The expanded sub-tree is handed to the caller like any other returned tree (and may be
        edited by later steps); what the parser returns for the body string itself must not depend on that.
        """
        from ahbicht.expressions.expression_resolver import parse_expression_including_unresolved_subexpressions
        from vlib.props.c10 import _providers

        entry = self.pool[index]
        if entry["kind"] == "ahb" or entry.get("deep"):
            return
        sut.configure(_providers({"7P": entry["s"]}))
        res = sut.call(parse_expression_including_unresolved_subexpressions, "[1] U [7P]", True, replace_time)
        if not res.ok:
            fail("rejected", f"resolving '[1] U [7P]' with 7P = {entry['s']!r} raised {res!r}")
        self.trees.append((index, res.value))

    def flood(self, base):
        parse_cond, parse_ahb = _parsers()
        for number in range(1100):
            res = sut.call(parse_cond, f"[{base + number}]")
            if not res.ok:
                fail("rejected", f"'[{base + number}]' raised {res!r}")
            res = sut.call(parse_ahb, f"Muss[{base + number}]")
            if not res.ok:
                fail("rejected", f"'Muss[{base + number}]' raised {res!r}")
        self.flooded = True
        self.floods += 1

    def evaluate(self, index, assignment):
        entry = self.pool[index]
        if entry["kind"] != "dom":
            return
        api = evalhelp.api()
        full = {k: assignment.get(k, "F") for k in ref.keys_of(entry["ast"], "rc")}
        evalhelp.setup_for(entry["ast"], full)
        res = sut.call(api.requirement_constraint_evaluation, entry["s"])
        if not res.ok:
            fail("evaluation", f"evaluating {entry['s']!r} under {full} raised {res!r} "
                 f"(after {len(self.edited)} edited strings, {self.floods} floods)")  # fmt: skip
        expected = ref.OUTCOME[ref.state(entry["ast"], full)]
        if evalhelp.outcome_of(res.value) != expected:
            fail("evaluation", f"{entry['s']!r} under {full} evaluates to {evalhelp.outcome_of(res.value)}, expected {expected} "
                 f"(after {len(self.edited)} edited strings, {self.floods} floods)")  # fmt: skip
        if index in self.edited:
            self.reparse_after_edit += 1

    def info(self):
        return {"reparse_after_edit": self.reparse_after_edit, "reparse_after_flood": self.reparse_after_flood,
                "deep_reparse_after_edit": self.deep_reparse_after_edit,
                "parses": self.parses, "floods": self.floods}  # fmt: skip


def check_trace(case):
    interp = Interpreter()
    for op in case["ops"]:
        interp.step(op)
    return interp.info()


def classify(case, info):
    labels = [f"steps={min(len(case['ops']), 60) // 10 * 10}+"]
    if info["reparse_after_edit"]:
        labels.append("edit-then-reparse")
    if info["reparse_after_flood"]:
        labels.append("evict-then-reparse")
    if any(op["op"] == "add" and op["entry"].get("deep") for op in case["ops"]):
        labels.append("with-deeply-nested-expression")
    if info.get("deep_reparse_after_edit"):
        labels.append("deeply-nested:edit-then-reparse")
    if any(op["op"] == "evaluate" for op in case["ops"]):
        labels.append("evaluates")
    if any(op["op"] == "reject" for op in case["ops"]):
        labels.append("with-rejected-strings")
    texts = [op["entry"].get("s", "") for op in case["ops"] if op["op"] == "add" and op["entry"]["kind"] == "ahb"]
    if len({t.rstrip() for t in texts}) < len(set(texts)):
        labels.append("with-whitespace-twins")
    return labels, bool(info["reparse_after_edit"] or info["reparse_after_flood"])


# ----------------------------------------------------------------------------------------------------- generators


def deep_text(depth):
    """[1] U ([2] O ([3] U ( ... [depth+1]))): operators alternate, so that every bracket is a level of the tree"""
    text = f"[{depth + 1}]"
    for level in range(depth, 0, -1):
        text = f"[{level}]{' U ' if level % 2 else ' O '}({text})"
    return text


@st.composite
def pool_entry(draw, size, kinds=("cond", "dom", "dom", "ahb"), raw_one_in=4, deep_one_in=120):
    if deep_one_in and draw(st.sampled_from(range(deep_one_in))) == 0:
        # nested deeper than a recursive copy can follow; the text is generated from the depth when the entry is added
        return {"kind": "cond", "deep": draw(st.sampled_from([245, 260, 300, 340]))}
    kind = draw(st.sampled_from(list(kinds)))
    if kind == "cond":
        ast = draw(gen.g_expr(max_atoms=size))
        return {"kind": "cond", "ast": ast, "s": gen.render(draw, ast)}
    if kind == "dom":
        ast = draw(gen.g_dom(max_atoms=size, mode="valid", pools={"rc": gen.RC_POOL[:4], "hint": gen.HINT_POOL[:2], "fc": gen.FC_POOL[:2]}))
        return {"kind": "dom", "ast": ast, "s": gen.render(draw, ast, redundant=False)}
    shape = draw(gen.g_ahb_shape(max_parts=3))
    parts = []
    for indicator, has_cond in shape:
        cond = None
        if has_cond:
            cond = gen.render(draw, draw(gen.g_expr(max_atoms=max(1, size // 2))), redundant=False, top=False)
        parts.append((indicator, cond))
    entry = {"kind": "ahb", "parts": [list(p) for p in parts], "s": gen.render_ahb(draw, parts)}
    if draw(st.sampled_from(range(raw_one_in))) == 0:
        # The AHB parser on its own only checks that a condition part looks like one: any Unicode whitespace is fine
        # there (no-break space, figure space ... - what arrives when an expression is pasted from a PDF).  Such an
        # entry is 'raw': it is only ever given to the AHB parser, whose token must be the written text, unchanged.
        exotic = draw(st.sampled_from(RAW_SPACES))
        raw_parts = []
        for indicator, cond in parts:
            if cond is not None and "]" in cond[:-1]:
                cut = cond.index("]") + 1
                cond = cond[:cut] + exotic + cond[cut:].replace(" ", exotic)
            raw_parts.append((indicator, cond))
        if raw_parts != parts:
            entry = {"kind": "ahb", "raw": True, "parts": [list(p) for p in raw_parts], "s": gen.render_ahb(draw, raw_parts)}
    return entry


RAW_SPACES = ["\u00a0", "\u2007", "\u202f", "\u2003", "\u3000", "\x1f", "\x85"]


# ------------------------------------------------------------------------------ cold start: first use in a process


def check_cold(case):
    """the same trace interpreter, but in a fresh interpreter process: the first parses of the process are judged"""
    from vlib import coldstart

    return coldstart.run("C11", "histories", {"ops": case["ops"]})


def strategy_cold(tier):
    size = 5 if tier == "quick" else 8

    @st.composite
    def build(draw):
        # the first uses of both parsers matter: always an AHB expression (half of them in a raw spelling) among them
        entries = [draw(pool_entry(size, kinds=("ahb",), raw_one_in=2, deep_one_in=0))] + draw(st.lists(pool_entry(size), min_size=1, max_size=4))
        if draw(st.sampled_from(range(3))) == 0:
            # Hypothesis raises the interpreter's recursion limit while it runs a test, the child process does not:
            # only here a copy that recurses along the nesting of a tree meets the limit an application would have
            entries.append({"kind": "cond", "deep": draw(st.sampled_from([245, 260, 300, 340]))})
        ops = [{"op": "add", "entry": entry} for entry in entries]
        order = draw(st.permutations(range(len(entries))))
        ops += [{"op": "parse", "i": i} for i in order]
        for _ in range(draw(st.sampled_from([0, 2, 3, 4]))):
            ops.append({"op": "edit", "t": draw(st.sampled_from(range(len(entries)))), "path": draw(st.lists(st.sampled_from(range(4)), max_size=3)),
                        "edit": draw(st.sampled_from(EDITS)), "pos": draw(st.sampled_from(range(4)))})  # fmt: skip
        if draw(st.booleans()):
            ops += [{"op": "parse", "i": i} for i in order]
        ops.append({"op": "flood", "base": draw(st.integers(100000, 900000))})
        ops += [{"op": "parse", "i": i} for i in order]
        return {"ops": ops}

    return build()


def classify_cold(case, info):
    entries = [op["entry"] for op in case["ops"] if op["op"] == "add"]
    first = next(op for op in case["ops"] if op["op"] == "parse")
    first_ahb = next(entries[op["i"]] for op in case["ops"] if op["op"] == "parse" and entries[op["i"]]["kind"] == "ahb")
    labels = ["first-parse=" + entries[first["i"]]["kind"], "first-ahb-parse=" + ("raw" if first_ahb.get("raw") else "plain")]
    if info.get("deep_reparse_after_edit"):
        labels.append("deeply-nested:edit-then-reparse")
    if info.get("reparse_after_edit"):
        labels.append("edit-then-reparse")
    return labels, bool(info["reparse_after_flood"])


def make_machine(tier, recorder):
    size = 5 if tier == "quick" else 8
    flood_share = 10 if tier == "quick" else 2  # one in N histories may flood

    class ParseHistory(RuleBasedStateMachine):
        def __init__(self):
            super().__init__()
            recorder.tick()
            self.interp = Interpreter()
            self.trace = []
            self.failed = False
            self.may_flood = False

        def _do(self, op):
            recorder.tick(200 if op["op"] == "flood" else 1)
            self.trace.append(op)
            try:
                self.interp.step(op)
            except Violation as violation:
                self.failed = True
                recorder.note_failure({"ops": list(self.trace)}, violation)
                raise

        @initialize(entries=st.lists(pool_entry(size), min_size=2, max_size=6), lottery=st.integers(0, flood_share - 1))
        def start(self, entries, lottery):
            self.may_flood = lottery == 0
            for entry in entries:
                self._do({"op": "add", "entry": entry})

        @rule(index=st.integers(0, 50))
        def parse(self, index):
            self._do({"op": "parse", "i": index})

        @rule(index=st.integers(0, 50))
        def parse_again(self, index):
            self._do({"op": "parse", "i": index})

        @rule(entry=pool_entry(size))
        def fresh(self, entry):
            self._do({"op": "add", "entry": entry})
            self._do({"op": "parse", "i": len(self.interp.pool) - 1})

        @rule(index=st.integers(0, 50))
        def resolve(self, index):
            self._do({"op": "resolve", "i": index})

        @rule(index=st.integers(0, 50), time=st.booleans())
        def expand(self, index, time):
            self._do({"op": "expand", "i": index, "time": time})

        @precondition(lambda self: bool(self.interp.trees))
        @rule(tree=st.integers(0, 200), path=st.lists(st.integers(0, 5), max_size=4), edit=st.sampled_from(EDITS), pos=st.integers(0, 5))
        def edit(self, tree, path, edit, pos):
            self._do({"op": "edit", "t": tree, "path": path, "edit": edit, "pos": pos})

        @precondition(lambda self: self.may_flood and self.interp.floods == 0 and self.interp.parses >= 1)
        @rule(base=st.integers(100000, 900000))
        def flood(self, base):
            self._do({"op": "flood", "base": base})

        @rule(index=st.integers(0, 50), tail=st.sampled_from([" ", "\n", "\t ", "  "]))
        def twin(self, index, tail):
            """an AHB expression that differs from a pool entry only by additional trailing whitespace - another string"""
            entry = self.interp.pool[index % len(self.interp.pool)]
            if entry["kind"] != "ahb" or entry["parts"][-1][1] is None:
                return
            twin = dict(entry, s=entry["s"] + tail)
            self._do({"op": "add", "entry": twin})
            self._do({"op": "parse", "i": len(self.interp.pool) - 1})

        @rule(index=st.integers(0, 50), pos=st.integers(0, 40), derive=st.booleans())
        def reject(self, index, pos, derive):
            self._do({"op": "reject", "i": index, "pos": pos, "derive": derive})

        @rule(index=st.integers(0, 50), assignment=st.fixed_dictionaries({k: st.sampled_from("FUK") for k in gen.RC_POOL[:4]}))
        def evaluate(self, index, assignment):
            self._do({"op": "evaluate", "i": index, "assignment": assignment})

        @invariant()
        def nothing_escaped(self):
            pass

        def teardown(self):
            if not self.failed and self.trace:
                recorder.note_success({"ops": list(self.trace)}, self.interp.info())

    return ParseHistory


STAGES = [
    Stage(name="histories", kind="machine", check=check_trace, classify=classify, machine=make_machine,
          budget={"quick": 60, "thorough": 600}, steps={"quick": 30, "thorough": 60},
          floors={"edit-then-reparse": 0.25, "evict-then-reparse": 0.03},
          shrink_budget={"quick": 1500, "thorough": 6000},
          sample=lambda c: {"ops": [op if op["op"] != "add" else {"op": "add", "s": op["entry"].get("s", f"<nested {op['entry'].get('deep')} levels deep>"), "kind": op["entry"]["kind"]} for op in c["ops"][:14]]}),
    Stage(name="cold-start", kind="hyp", check=check_cold, classify=classify_cold, strategy=strategy_cold,
          budget={"quick": 6, "thorough": 40}, floors={"first-ahb-parse=raw": 0.1, "deeply-nested:edit-then-reparse": 0.03}, shrink_budget={"quick": 30, "thorough": 200},
          sample=lambda c: {"strings": [op["entry"].get("s", f"<nested {op['entry'].get('deep')} levels deep>") for op in c["ops"] if op["op"] == "add"]}),
]  # fmt: skip
