"""
C14 - soll_is_required is equivalent to rewriting SOLL at every level.

Metamorphic: validate(tree, flag) must equal validate(tree with every SOLL indicator rewritten to MUSS (flag True)
or KANN (flag False), flag) and also validate(rewritten tree, not flag) - the rewritten tree contains no SOLL, so the
flag must not matter any more.  The rewrite is done on the structured parts of every expression, so every spelling
and letter case of S / Soll is covered.
"""

from hypothesis import strategies as st

from vlib import gen, ref, sut, vtree
from vlib.core import Stage, fail

ID = "C14"
MANIFEST = {
    "category": "exploration",
    "text": "Generated-input search with a metamorphic oracle: deep AHBs in which SOLL (all spellings and letter cases) is forced to occur at groups, segments and free-text data elements x content evaluation results x both flag values. The full ValidationResultInContext list of validate_deep_anwendungshandbuch(tree, flag) must equal the one for the tree with every SOLL rewritten to MUSS (flag True) resp. KANN (flag False), under either flag value; or all three raise NotImplementedError. The same relation is checked for validate_segment_level / validate_segment on drawn sub-trees. For flag True the same calls are repeated with the argument left out (documented default True) at validate_deep_anwendungshandbuch, validate_segment_level and validate_segment_group. Free-text elements carry maus value types (absent / TEXT / DATETIME); in half of the cases up to three SOLL elements get a neighbour in the same segment that is written exactly as the rewriting will write them (same condition text, same input, other value type), so that the rewritten AHB contains elements that coincide in expression and input.",
    "note": "Trusted: the indicator rewrite (done on the structured parts, re-rendered by the same renderer) and attrs equality of the result objects. No reference model is involved. Process configuration by shard (vlib/sut.py; recorded in replay files): plain / parse caches preheated beyond their size / warnings attributed to ahbicht raised as errors / logging fully enabled with every record rendered; one event loop per process or a new one per call; five process time zones; the hash seed is the shard number; namesakes of ahbicht's marshmallow schema classes are registered. Every registry of evaluators / providers / resolvers that the harness builds (sut.configure) also holds one of each kind that names no EDIFACT format and no format version; these must never be asked.",
    "technique": "property-based testing with a metamorphic relation (flag value vs rewritten indicators)",
}
LEVEL = "exploration"
RULE = (
    "AHB tree x content evaluation result x flag; non-trivial = some visited free-text data element, segment or group "
    "whose selected part is a SOLL with fulfilled constraints below required parents (the place where the flag is "
    "visible), with at least one such free-text element; distinct by case"
)
ASSUMPTIONS = ["expressions are valid; value-pool entries are rewritten too (their indicator does not matter to the code)"]
BOUNDS = {"quick": {"max_nodes": 30, "max_depth": 2}, "thorough": {"max_nodes": 80, "max_depth": 3}}


def _api():
    from ahbicht.validation.validation import validate_deep_anwendungshandbuch, validate_segment, validate_segment_level

    return validate_deep_anwendungshandbuch, validate_segment_level, validate_segment


def rewrite_expr(expr, flag):
    """SOLL -> MUSS / KANN on the written text, part by part (the condition texts are kept verbatim)"""
    new_parts = []
    text = expr["s"]
    out, pos = "", 0
    for indicator, ast in expr["parts"]:
        index = text.index(indicator, pos)
        out += text[pos:index]
        replacement = indicator
        if ref.normalise_indicator(indicator) == "SOLL":
            replacement = ("Muss" if flag else "Kann") if len(indicator) > 1 else ("M" if flag else "K")
            if indicator.islower():
                replacement = replacement.lower()
        out += replacement
        pos = index + len(indicator)
        # skip this part's condition text: the next indicator is searched after it
        new_parts.append([replacement, ast])
        if ast is not None:
            pos = _skip_condition(text, pos)
            out += text[index + len(indicator) : pos]
    out += text[pos:]
    return {"s": out, "parts": new_parts}


_COND_CHARS = set("[]()UuOoXx∧∨⊻0123456789P.B" + ref.WS_CHARS)


def _skip_condition(text, pos):
    while pos < len(text) and text[pos] in _COND_CHARS:
        pos += 1
    return pos


def rewrite_tree(tree, flag):
    def group(g):
        return {"d": g["d"], "expr": rewrite_expr(g["expr"], flag), "groups": [group(x) for x in g["groups"]],
                "segs": [segment(s) for s in g["segs"]]}  # fmt: skip

    def segment(s):
        return {"d": s["d"], "expr": rewrite_expr(s["expr"], flag), "des": [element(e) for e in s["des"]]}

    def element(e):
        if e["t"] == "ft":
            return {**e, "expr": rewrite_expr(e["expr"], flag)}
        return {**e, "pool": [{**p, "expr": rewrite_expr(p["expr"], flag)} for p in e["pool"]]}

    return {"groups": [group(g) for g in tree["groups"]], "table": tree["table"]}


def _run(func, built, flag, tree, cer):
    vtree.setup(tree, cer)
    return sut.call(func, built, flag)


def _same(a, b, what):
    if a.ok != b.ok:
        fail("differs", f"{what}: one run returned, the other raised: {str(a)[:300]} vs {str(b)[:300]}")
    if not a.ok:
        if not (a.is_a(NotImplementedError) and b.is_a(NotImplementedError)):
            fail("raises", f"{what}: raised {a!r} / {b!r}")
        return
    if a.value != b.value:
        rows_a, rows_b = vtree.result_rows(a.value), vtree.result_rows(b.value)
        diff = [(x, y) for x, y in zip(rows_a, rows_b) if x != y][:3]
        if not diff and len(rows_a) == len(rows_b):
            diff = [(x, y) for x, y in zip(a.value, b.value) if x != y][:1]
        fail("differs", f"{what}: results differ, e.g. {diff} (lengths {len(rows_a)} / {len(rows_b)})")


def check(case):
    deep, level, segment_func = _api()
    tree, cer, flag = case["tree"], case["cer"], case["flag"]
    rewritten = rewrite_tree(tree, flag)
    base = _run(deep, vtree.build(tree), flag, tree, cer)
    same_flag = _run(deep, vtree.build(rewritten), flag, rewritten, cer)
    other_flag = _run(deep, vtree.build(rewritten), not flag, rewritten, cer)
    target = "MUSS" if flag else "KANN"
    _same(base, same_flag, f"soll_is_required={flag} vs SOLL rewritten to {target}")
    _same(base, other_flag, f"soll_is_required={flag} vs SOLL rewritten to {target} validated with soll_is_required={not flag}")
    # the documented default of the flag is True ("true (default) if SOLL should be handled like MUSS"), at every
    # entry point: leaving the argument out must give what soll_is_required=True gives
    if flag:
        from ahbicht.validation.validation import validate_segment_group

        first_group = tree["groups"][0]
        for name, call_default, call_explicit in (
            ("validate_deep_anwendungshandbuch", lambda: deep(vtree.build(tree)), lambda: deep(vtree.build(tree), True)),
            ("validate_segment_level", lambda: level(vtree.build_group(first_group)), lambda: level(vtree.build_group(first_group), True)),
            ("validate_segment_group", lambda: validate_segment_group(vtree.build_group(first_group)),
             lambda: validate_segment_group(vtree.build_group(first_group), None, True)),
        ):  # fmt: skip
            vtree.setup(tree, cer)
            default = sut.call(call_default)
            vtree.setup(tree, cer)
            explicit = sut.call(call_explicit)
            _same(explicit, default, f"{name}: soll_is_required=True vs the argument left out (documented default True)")
    # sub-trees
    candidates = [(kind, node) for kind, node, _ in vtree.nodes(tree) if kind in ("group", "seg")]
    rewritten_nodes = {node["d"]: node for _, node, _ in vtree.nodes(rewritten)}
    kind, node = candidates[case["sub"] % len(candidates)]
    build = vtree.build_group if kind == "group" else vtree.build_segment
    funcs = [level] + ([segment_func] if kind == "seg" else [])
    for func in funcs:
        if func is segment_func:
            a = sut.call(lambda: (vtree.setup(tree, cer), sut.run(func(build(node), None, flag)))[1])
            b = sut.call(lambda: (vtree.setup(tree, cer), sut.run(func(build(rewritten_nodes[node["d"]]), None, not flag)))[1])
        else:
            a = _run(func, build(node), flag, tree, cer)
            b = _run(func, build(rewritten_nodes[node["d"]]), not flag, tree, cer)
        _same(a, b, f"{func.__name__}({node['d']}): soll_is_required={flag} vs rewritten with {not flag}")
    return _visibility(tree, cer, flag, base)


def _visibility(tree, cer, flag, base):
    """where is the flag visible?  nodes that the run visited whose selected part is a fulfilled SOLL"""
    info = {"soll_nodes": 0, "visible_ft": 0, "visible_level": 0, "nie": not base.ok}
    visited = {r.discriminator for r in base.value} if base.ok else set()
    for kind, node, _ in vtree.nodes(tree):
        if kind == "vp":
            continue
        parts = node["expr"]["parts"]
        if any(ref.normalise_indicator(p[0]) == "SOLL" for p in parts):
            info["soll_nodes"] += 1
        index = ref.select_part(parts, cer["rc"])
        if (
            node["d"] in visited
            and ref.normalise_indicator(parts[index][0]) == "SOLL"
            and ref.part_fulfilled(parts[index][1], cer["rc"]) is True
        ):
            info["visible_ft" if kind == "ft" else "visible_level"] += 1
    return info


def classify(case, info):
    labels = ["flag=" + str(case["flag"])]
    if info["nie"]:
        labels.append("NotImplementedError")
    if info["visible_ft"]:
        labels.append("flag-visible-at-free-text")
    if info["visible_level"]:
        labels.append("flag-visible-at-segment-level")
    if case.get("twins"):
        labels.append("elements-that-coincide-after-rewriting")
    return labels, info["visible_ft"] > 0


def strategy(tier):
    bounds = BOUNDS[tier]

    @st.composite
    def build(draw):
        tree = draw(vtree.g_tree(max_nodes=bounds["max_nodes"], max_depth=bounds["max_depth"], soll_bias=True))
        cer = draw(vtree.g_cer(weights=draw(st.sampled_from(["FFFU", "F", "FFFFUK", "FUK"]))))
        flag = draw(st.booleans())
        twins = 0
        if draw(st.booleans()):
            # next to a free-text element with SOLL stands one that is written the way the rewriting will write the
            # first: same condition, same input, but another data type - the two stay two elements in either AHB
            for kind, node, _ in vtree.nodes(tree):
                if kind == "seg":
                    for element in list(node["des"]):
                        if (element["t"] == "ft" and twins < 3 and draw(st.booleans())
                                and any(ref.normalise_indicator(p[0]) == "SOLL" for p in element["expr"]["parts"])):
                            twin = {**element, "d": element["d"] + "-twin", "expr": rewrite_expr(element["expr"], flag),
                                    "vt": "DATETIME" if element.get("vt") in (None, "TEXT") else "TEXT"}
                            node["des"].insert(node["des"].index(element) + draw(st.sampled_from([0, 1])), twin)
                            twins += 1
        return {"tree": tree, "cer": cer, "flag": flag, "sub": draw(st.integers(0, 200)), "twins": twins}

    return build()


def sample(case):
    return {"soll_is_required": case["flag"], "rc": case["cer"]["rc"],
            "nodes": [(node["d"], node["expr"]["s"]) for kind, node, _ in vtree.nodes(case["tree"]) if kind != "vp"][:10]}  # fmt: skip


STAGES = [
    Stage(name="rewrite", kind="hyp", check=check, classify=classify, strategy=strategy,
          budget={"quick": 120, "thorough": 800},
          floors={"flag-visible-at-free-text": 0.15, "flag-visible-at-segment-level": 0.15}, sample=sample),
]  # fmt: skip
