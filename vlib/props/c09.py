"""
C09 - AHB expressions split into their parts; the first fulfilled part decides.

Stage `split`: AHB expressions in the documented forms are built from parts (indicator spelling + condition AST);
the resolver's tree must have exactly one child per written part, in order, with the written indicator text and a
condition subtree that matches the part's AST.
Stage `select`: every part's own condition text is evaluated on its own by the real requirement / format constraint
evaluation; the expected part is the first with fulfilled == True, else the last (cross-checked against the reference
evaluator); evaluate_ahb_expression_tree must report exactly that part.
"""

from hypothesis import strategies as st

from vlib import evalhelp, gen, ref, sut
from vlib import large
from vlib.core import Stage, fail

ID = "C09"
MANIFEST = {
    "category": "exploration",
    "text": "Generated-input search: AHB expressions of the documented forms (1-4 modal-mark parts in all six spellings and any letter case, optional trailing bare modal mark; one prefix-operator part X/O/U in either case; bare indicator), whitespace (incl. none) around condition expressions. split: the resolved tree must consist of exactly the written parts in order (indicator token text, condition subtree matching the part's AST modulo in-run regrouping). select: against content evaluation results incl. UNKNOWN, the reported part must be the first fulfilled one (else the last), with the normalised indicator as enum member and exactly that part's own fulfilled / hints / collected format-constraint expression / format result; is_conditional is compared for single-part expressions only. Stage many-parts (enumerated): 11-14 (thorough: 8-40) modal-mark parts with suspending evaluators, evaluated three times on new event loops. A quarter of the packages end in a time condition. Stage deep-conditions (enumerated): 'Muss <condition nested 120 / 260 (thorough: 60-300) brackets deep> Soll [2][902] Kann' with the first part fulfilled or not; expected state of the nested condition by an iterative fold.",
    "note": "Trusted: ref.match, ref.state/select_part, the real single-part evaluators used as a differential reference for hints and format results (C04/C07/C08 judge those separately). Bounded: <= 4 parts, <= 8 atoms per part. Process configuration by shard (vlib/sut.py; recorded in replay files): plain / parse caches preheated beyond their size / warnings attributed to ahbicht raised as errors / logging fully enabled with every record rendered; one event loop per process or a new one per call; five process time zones; the hash seed is the shard number; namesakes of ahbicht's marshmallow schema classes are registered. Every registry of evaluators / providers / resolvers that the harness builds (sut.configure) also holds one of each kind that names no EDIFACT format and no format version; these must never be asked.",
    "technique": "property-based testing with a by-construction oracle (split) and a differential/reference oracle (selection)",
}
LEVEL = "exploration"
RULE = (
    "AHB expression built from generated parts (x content evaluation result for stage select); non-trivial = >= 2 "
    "parts with the selected part not the first one, or an indicator in non-canonical spelling (mixed/lower case or "
    "a one-letter modal mark); distinct by (string, content evaluation result)"
)
ASSUMPTIONS = [
    "whitespace is placed only around condition expressions (the AHB grammar ignores no whitespace elsewhere)",
    "requirement_is_conditional is not compared for expressions with several parts (the code documents that it forces True there)",
    "condition parts of stage select are valid expressions of the evaluation domain of C04",
]
BOUNDS = {"quick": {"max_atoms": 6}, "thorough": {"max_atoms": 10}}


def _noncanonical(indicator):
    return indicator not in ("Muss", "Soll", "Kann", "X", "O", "U")


def check_split(case):
    from lark import Token, Tree

    api = evalhelp.api()
    text, parts = case["s"], case["parts"]
    res = sut.call(api.resolve, text, False, False)
    if not res.ok:
        fail("rejected", f"AHB expression {text!r} of the documented form was not resolved: {res!r}")
    tree = res.value
    if not isinstance(tree, Tree) or tree.data != "ahb_expression":
        fail("shape", f"{text!r}: root is {getattr(tree, 'data', tree)!r}, not ahb_expression")
    if len(tree.children) != len(parts):
        fail("part-count", f"{text!r}: {len(parts)} parts written, {len(tree.children)} parts in the tree")
    for index, (child, (indicator, ast, _)) in enumerate(zip(tree.children, parts)):
        if not isinstance(child, Tree):
            fail("shape", f"{text!r}: part {index} is {child!r}")
        token = child.children[0] if child.children else None
        if not isinstance(token, Token) or str(token) != indicator:
            fail("indicator", f"{text!r}: part {index} has indicator {token!r}, written {indicator!r}")
        expected_type = "PREFIX_OPERATOR" if indicator.upper() in ("X", "O", "U") else "MODAL_MARK"
        if token.type != expected_type:
            fail("indicator", f"{text!r}: indicator {indicator!r} of part {index} has token type {token.type}")
        if ast is None:
            if child.data != "requirement_indicator" or len(child.children) != 1:
                fail("shape", f"{text!r}: bare indicator part {index} became {child.data} with {len(child.children)} children")
        else:
            if child.data != "single_requirement_indicator_expression" or len(child.children) != 2:
                fail("shape", f"{text!r}: part {index} became {child.data} with {len(child.children)} children")
            if not ref.match(child.children[1], ast):
                fail("condition", f"{text!r}: condition of part {index} parsed as "
                     f"{ref.canonical(ref.tree_to_ast(child.children[1], False) or ['rc', '?'])!r}, written {ref.canonical(ast)!r}")  # fmt: skip
    return {}


def classify_split(case, info):  # pylint:disable=unused-argument
    parts = case["parts"]
    labels = [f"parts={len(parts)}"]
    if parts[-1][1] is None:
        labels.append("bare-last")
    if parts[0][0].upper() in ("X", "O", "U"):
        labels.append("prefix-operator")
    noncanonical = any(_noncanonical(p[0]) for p in parts)
    if noncanonical:
        labels.append("noncanonical-spelling")
    return labels, noncanonical or len(parts) >= 2


def _expected_indicator(text):
    name = ref.normalise_indicator(text)
    return ("PrefixOperator", name) if name in ("X", "O", "U") else ("ModalMark", name)


def check_select(case):
    api = evalhelp.api()
    text, parts, cer = case["s"], case["parts"], case["cer"]
    asts = [p[1] for p in parts if p[1] is not None]

    def inject():
        sut.setup_hardcoded(sut.make_cer(rc=cer["rc"], fc=cer["fc"], hints=cer["hints"], packages=cer.get("packages") or {}))

    # the parts on their own
    own = []
    for indicator, ast, written in parts:
        if ast is None:
            own.append({"fulfilled": True, "conditional": False, "hints": None, "fce": None, "fc": (True, None)})
            continue
        inject()
        # the part's condition expression exactly as written (grouping inside one-operator runs is unspecified, and
        # hint texts / the collected expression legitimately depend on it)
        own_tree = sut.call(api.resolve, written, True)  # the part's own condition expression, packages resolved
        if not own_tree.ok:
            fail("part-raises", f"part {written!r} of {text!r} could not be resolved on its own: {own_tree!r}")
        inject()
        rc_res = sut.call(api.requirement_constraint_evaluation, own_tree.value)
        if not rc_res.ok:
            fail("part-raises", f"part {written!r} of {text!r} raised on its own: {rc_res!r}")
        inject()
        fc_res = sut.call(api.format_constraint_evaluation, rc_res.value.format_constraints_expression)
        if not fc_res.ok:
            fail("part-raises", f"format constraints of part {ref.canonical(ast)!r} raised on their own: {fc_res!r}")
        expected_state = ref.OUTCOME[ref.state(ast, cer["rc"])]
        if evalhelp.outcome_of(rc_res.value) != expected_state:
            fail("part-outcome", f"part {ref.canonical(ast)!r} under {cer['rc']} gives {evalhelp.outcome_of(rc_res.value)}, "
                 f"reference says {expected_state}")  # fmt: skip
        own.append({
            "fulfilled": rc_res.value.requirement_constraints_fulfilled,
            "conditional": rc_res.value.requirement_is_conditional,
            "hints": rc_res.value.hints,
            "fce": rc_res.value.format_constraints_expression,
            "fc": (fc_res.value.format_constraints_fulfilled, fc_res.value.error_message),
        })  # fmt: skip
    selected = next((i for i, o in enumerate(own) if o["fulfilled"] is True), len(own) - 1)
    if selected != ref.select_part([p[:2] for p in parts], cer["rc"]):
        raise AssertionError("differential and reference selection disagree")
    # the whole expression
    inject()
    tree = sut.call(api.resolve, text, True)
    if not tree.ok:
        fail("rejected", f"AHB expression {text!r} was not resolved: {tree!r}")
    inject()
    res = sut.call(api.evaluate_ahb_expression_tree, tree.value)
    if not res.ok:
        fail("evaluation-raises", f"evaluate_ahb_expression_tree({text!r}) raised {res!r}")
    result = res.value
    # parse once, evaluate often: a second evaluation of the same tree under the same content evaluation result agrees
    inject()
    again = sut.call(api.evaluate_ahb_expression_tree, tree.value)
    if not again.ok or again.value != result:
        fail("second-evaluation", f"evaluating the same tree of {text!r} a second time gives {again!r}, first {result!r}")
    want = own[selected]
    indicator = result.requirement_indicator
    got_indicator = (type(indicator).__name__, getattr(indicator, "value", indicator))
    if got_indicator != _expected_indicator(parts[selected][0]):
        fail("selected-indicator", f"{text!r} under {cer['rc']}: reported indicator {got_indicator}, expected part "
             f"{selected} = {_expected_indicator(parts[selected][0])}")  # fmt: skip
    rc_part = result.requirement_constraint_evaluation_result
    fc_part = result.format_constraint_evaluation_result
    got = {
        "fulfilled": rc_part.requirement_constraints_fulfilled,
        "hints": rc_part.hints,
        "fce": rc_part.format_constraints_expression,
        "fc": (fc_part.format_constraints_fulfilled, fc_part.error_message),
    }
    for field in ("fulfilled", "hints", "fce", "fc"):
        if got[field] != want[field]:
            fail("selected-" + field, f"{text!r} under rc={cer['rc']} fc={cer['fc']}: {field} = {got[field]!r}, "
                 f"but part {selected} ({parts[selected][0]!r}) on its own gives {want[field]!r}")  # fmt: skip
    if len(parts) == 1 and rc_part.requirement_is_conditional != want["conditional"]:
        fail("selected-conditional", f"{text!r}: is_conditional = {rc_part.requirement_is_conditional!r}, "
             f"the part on its own gives {want['conditional']!r}")  # fmt: skip
    del asts
    return {"selected": selected}


def classify_select(case, info):
    parts = case["parts"]
    labels = [f"parts={len(parts)}", f"selected={info['selected']}"]
    noncanonical = any(_noncanonical(p[0]) for p in parts)
    if noncanonical:
        labels.append("noncanonical-spelling")
    if "K" in case["cer"]["rc"].values():
        labels.append("has-unknown")
    if any("P" in (p[2] or "") for p in parts):
        labels.append("with-packages")
    if any(p[0].upper() in ("X", "O", "U") and p[0].islower() for p in parts):
        labels.append("lower-case-prefix-operator")
    later = len(parts) >= 2 and info["selected"] > 0
    if later:
        labels.append("later-part-selected")
    return labels, later or noncanonical


def _build_parts(draw, size, domain, table_asts=None):
    from vlib import vtree

    shape = draw(gen.g_ahb_shape(max_parts=4))
    parts, rendered = [], []
    for indicator, has_cond in shape:
        ast, cond = None, None
        if has_cond:
            if domain:
                ast = draw(gen.g_dom(max_atoms=size, mode="valid", pools={"rc": gen.RC_POOL[:5], "hint": gen.HINT_POOL[:3], "fc": gen.FC_POOL[:3]}))
                # some requirement constraints are written as packages; `ast` keeps the expanded form for the reference
                written_ast, ast = vtree._swap_in_packages(draw, ast, table_asts or {})  # pylint:disable=protected-access
                cond = gen.render(draw, written_ast, redundant=draw(st.booleans()), top=False)
            else:
                ast = draw(gen.g_expr(max_atoms=size))
                cond = gen.render(draw, ast, redundant=draw(st.booleans()), top=False)
        parts.append([indicator, ast, cond])
        rendered.append((indicator, cond))
    return parts, gen.render_ahb(draw, rendered)


def strategy_split(tier):
    size = BOUNDS[tier]["max_atoms"]

    @st.composite
    def build(draw):
        parts, text = _build_parts(draw, size, domain=False)
        return {"parts": parts, "s": text}

    return build()


def strategy_select(tier):
    size = BOUNDS[tier]["max_atoms"]

    @st.composite
    def build(draw):
        from vlib import vtree

        table, table_asts = draw(vtree.package_table()) if draw(st.booleans()) else ({}, {})
        parts, text = _build_parts(draw, size, domain=True, table_asts=table_asts)
        asts = [p[1] for p in parts if p[1] is not None]
        rc_keys = sorted({k for a in asts for k in ref.keys_of(a, "rc")})
        fc_keys = sorted({k for a in asts for k in ref.keys_of(a, "fc")})
        hint_keys = sorted({k for a in asts for k in ref.keys_of(a, "hint")})
        values = draw(st.sampled_from(["FUK", "FUUK", "UUK", "FU"]))
        cer = {
            "rc": draw(gen.rc_assignment(rc_keys, values=values)),
            "fc": draw(gen.fc_truth(fc_keys)),
            "hints": draw(gen.hint_texts(hint_keys)),
            "packages": table,
        }
        return {"parts": parts, "s": text, "cer": cer}

    return build()


STAGES = [
    Stage(name="split", kind="hyp", check=check_split, classify=classify_split, strategy=strategy_split,
          budget={"quick": 250, "thorough": 4000}, key=lambda c: c["s"],
          floors={"noncanonical-spelling": 0.3, "bare-last": 0.05, "prefix-operator": 0.05},
          sample=lambda c: {"s": c["s"], "parts": [[p[0], p[2]] for p in c["parts"]]}),
    Stage(name="select", kind="hyp", check=check_select, classify=classify_select, strategy=strategy_select,
          budget={"quick": 250, "thorough": 4000}, key=lambda c: [c["s"], c["cer"]],
          floors={"later-part-selected": 0.1, "lower-case-prefix-operator": 0.02},
          sample=lambda c: {"s": c["s"], "cer": c["cer"]}),
    large.stage("many-parts", large.c09_check, large.c09_cases),
    large.stage("deep-conditions", large.c09_deep_check, large.c09_deep_cases),
]  # fmt: skip
