"""
C03 - Four-valued condition logic obeys its algebraic laws and is sound for UNKNOWN.

Complete enumeration (the quantifier is finite): all 4^2 pairs and 4^3 triples per operator; the thorough tier adds
all 3^2 * 4^3 * 2 mixed-operator triples for the soundness clause only.  The oracle is written from the statement:
independent tables (Kleene + NEUTRAL as identity), the README rows transcribed as literals, and brute-force
replacement of UNKNOWN operands.
"""

import itertools
import operator

from vlib import sut
from vlib.core import Stage, fail

ID = "C03"
MANIFEST = {
    "category": "exploration",
    "text": "Complete enumeration: every pair and triple of the four states for each of &, |, ^ is evaluated through the real operators and compared with tables and laws written from the statement (totality, commutativity, associativity, NEUTRAL identity, Boolean agreement, every README row, UNKNOWN soundness and tightness by brute-force replacement). The quantifier is finite, so the run is exhaustive.",
    "note": "Trusted: CPython, the transcription of the README rows and the independent tables in vlib/props/c03.py. Operands are ConditionFulfilledValue members only. Process configuration by shard (vlib/sut.py; recorded in replay files): plain / parse caches preheated beyond their size / warnings attributed to ahbicht raised as errors / logging fully enabled with every record rendered; one event loop per process or a new one per call; five process time zones; the hash seed is the shard number; namesakes of ahbicht's marshmallow schema classes are registered.",
    "technique": "exhaustive enumeration of the finite domain against independent truth tables and algebraic laws",
}
LEVEL = "exploration"
EXHAUSTIVE = True
SHARDS = {"quick": 4, "thorough": 4}  # shard 3 runs with DEBUG logging switched on (vlib/sut.py)
RULE = (
    "complete enumeration of {FULFILLED,UNFULFILLED,UNKNOWN,NEUTRAL}^2 and ^3 per operator (&,|,^) against tables "
    "and laws written from the statement (thorough: plus all mixed-operator triples, both groupings, soundness only); "
    "a case is non-trivial if it contains UNKNOWN or NEUTRAL; distinct by (shape, operators, operands)"
)
ASSUMPTIONS = [
    "operands are ConditionFulfilledValue members (what every evaluator returns); other operand types are out of scope",
    "README rows marked 'does not make sense' assert nothing; NEUTRAL-as-identity (from the statement) covers them",
]

V = "FUKN"
OPS = {"&": operator.and_, "|": operator.or_, "^": operator.xor}

# README truth tables, transcribed row by row (True=F, False=U, Unknown=K, Neutral=N); None = "does not make sense"
README = {
    "&": [("N", "F", "F"), ("N", "U", "U"), ("N", "N", "N"), ("K", "F", "K"), ("K", "U", "U"), ("K", "K", "K"), ("K", "N", "K")],
    "|": [("N", "F", None), ("N", "U", None), ("N", "N", "N"), ("K", "F", "F"), ("K", "U", "K"), ("K", "K", "K"), ("K", "N", None)],
    "^": [("N", "F", None), ("N", "U", None), ("N", "N", "N"), ("K", "F", "K"), ("K", "U", "K"), ("K", "K", "K"), ("K", "N", None)],
}  # fmt: skip

BOOL = {
    "&": lambda a, b: a and b,
    "|": lambda a, b: a or b,
    "^": lambda a, b: a != b,
}


def apply(op, a, b):
    """op on letters through the real implementation; returns a letter"""
    res = sut.call(OPS[op], sut.cfv(a), sut.cfv(b))
    if not res.ok:
        fail("total", f"{a} {op} {b} raised {res!r}")
    if not isinstance(res.value, sut.CFV):
        fail("total", f"{a} {op} {b} returned {res.value!r}, not one of the four states")
    return sut.letter(res.value)


def evaluate(case, args):
    shape = case["shape"]
    if shape == "pair":
        return apply(case["ops"][0], args[0], args[1])
    op1, op2 = case["ops"] if len(case["ops"]) == 2 else (case["ops"][0], case["ops"][0])
    if case.get("grouping", "left") == "left":
        return apply(op2, apply(op1, args[0], args[1]), args[2])
    return apply(op1, args[0], apply(op2, args[1], args[2]))


def replacements(args):
    idx = [i for i, x in enumerate(args) if x == "K"]
    for combo in itertools.product("FU", repeat=len(idx)):
        new = list(args)
        for i, value in zip(idx, combo):
            new[i] = value
        yield new


def check(case):
    args = case["args"]
    shape = case["shape"]
    result = evaluate(case, args)
    if shape == "pair":
        op = case["ops"][0]
        a, b = args
        if apply(op, b, a) != result:
            fail("commutative", f"{a} {op} {b} = {result} but {b} {op} {a} = {apply(op, b, a)}")
        if a == "N" and result != b:
            fail("neutral-identity", f"N {op} {b} = {result}")
        if b == "N" and result != a:
            fail("neutral-identity", f"{a} {op} N = {result}")
        if a in "FU" and b in "FU":
            expected = "F" if BOOL[op](a == "F", b == "F") else "U"
            if result != expected:
                fail("boolean", f"{a} {op} {b} = {result}, Boolean logic says {expected}")
        for row_a, row_b, row_res in README[op]:
            if row_res is not None and {(a, b), (b, a)} & {(row_a, row_b)} and result != row_res:
                fail("readme-row", f"README: {row_a} {op} {row_b} = {row_res}, got {result} for {a} {op} {b}")
    elif shape == "triple":
        op = case["ops"][0]
        a, b, c = args
        right = apply(op, a, apply(op, b, c))
        if right != result:
            fail("associative", f"({a}{op}{b}){op}{c} = {result} but {a}{op}({b}{op}{c}) = {right}")
        if all(x in "FU" for x in args):
            expected = "F" if BOOL[op](BOOL[op](a == "F", b == "F"), c == "F") else "U"
            if result != expected:
                fail("boolean", f"({a}{op}{b}){op}{c} = {result}, Boolean logic says {expected}")
    # UNKNOWN soundness (all shapes) and tightness (single-operator shapes)
    if "K" in args:
        outcomes = {evaluate(case, new) for new in replacements(args)}
        if result in "FU" and outcomes != {result}:
            fail("unknown-sound", f"{case} = {result} but replacing UNKNOWN gives {sorted(outcomes)}")
        if result == "K" and shape != "mixed" and len(outcomes) < 2:
            fail("unknown-tight", f"{case} = UNKNOWN although every replacement gives {sorted(outcomes)}")
        if result == "N":
            fail("unknown-sound", f"{case} = NEUTRAL although an operand is UNKNOWN")
    elif result == "K":
        fail("unknown-tight", f"{case} = UNKNOWN without any UNKNOWN operand")
    return {"result": result}


def classify(case, info):
    args = case["args"]
    labels = [case["shape"], "op" + "".join(case["ops"]), "result=" + info["result"]]
    if "K" in args:
        labels.append("has-unknown")
    if "N" in args:
        labels.append("has-neutral")
    return labels, ("K" in args or "N" in args)


def all_cases(tier):
    for op in OPS:
        for args in itertools.product(V, repeat=2):
            yield {"shape": "pair", "ops": [op], "args": list(args)}
        for args in itertools.product(V, repeat=3):
            yield {"shape": "triple", "ops": [op], "args": list(args)}
    if tier == "thorough":
        for op1, op2 in itertools.product(OPS, repeat=2):
            if op1 == op2:
                continue
            for grouping in ("left", "right"):
                for args in itertools.product(V, repeat=3):
                    yield {"shape": "mixed", "ops": [op1, op2], "grouping": grouping, "args": list(args)}


def enumerate_cases(tier, shard, nshards, seed):  # pylint:disable=unused-argument
    for index, case in enumerate(all_cases(tier)):
        if index % nshards == shard:
            yield case


STAGES = [
    Stage(name="tables", kind="enum", check=check, classify=classify, enumerate=enumerate_cases, exhaustive=True),
]
