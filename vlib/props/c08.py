"""
C08 - Format-constraint evaluation is Boolean and explains every failure.

Expressions over format-constraint keys with and/or/xor (no juxtaposition) are generated as ASTs, rendered in all
spellings, and evaluated under all 2^n truth assignments through three routes: the tree evaluator with hand-made
inputs, format_constraint_evaluation with the dict based evaluator, and format_constraint_evaluation with a plain
FcEvaluator subclass whose evaluate_9xx methods return (False, None), so that the default-message path supplies the
messages.  Oracle: Boolean evaluation of the AST; error message present iff unfulfilled.
"""

import itertools

from hypothesis import strategies as st

from vlib import evalhelp, gen, ref, sut
from vlib import large
from vlib.core import Stage, fail

ID = "C08"
MANIFEST = {
    "category": "exploration",
    "text": "Generated-input search: Boolean expressions over up to 6 format-constraint keys (n-ary U/O/X, nesting, every operator spelling, whitespace, redundant brackets) x all 2^n truth assignments, through evaluate_format_constraint_tree, format_constraint_evaluation with DictBasedFcEvaluator with a plain FcEvaluator subclass (sync and async evaluate_ methods returning (False, None)) and with one whose coroutines really suspend and complete in reverse order. The result must equal the Boolean value of the AST and carry an error message iff it is unfulfilled; None and '' must give (True, None). The Boolean clause is additionally checked on two routes (tree evaluator with hand-made nodes, dict based evaluator) where a subset of the unfulfilled constraints carries no error message at all. Stage many-tokens (enumerated): 11-40 (thorough: 9-98) different constraints in one expression, ONE injected evaluator whose coroutine methods suspend, asked four times under different truth assignments, each time on a new event loop. The keys include 932 and 935, for which FcEvaluator ships methods of its own (hard-coded results must win).",
    "note": "Trusted: ref.bool_eval and the generator. Precondition of the statement is built into the generator: unfulfilled single constraints carry a message (or get the default one), fulfilled ones carry none. Bounded: <= 12/24 atoms, <= 6 keys. Process configuration by shard (vlib/sut.py; recorded in replay files): plain / parse caches preheated beyond their size / warnings attributed to ahbicht raised as errors / logging fully enabled with every record rendered; one event loop per process or a new one per call; five process time zones; the hash seed is the shard number; namesakes of ahbicht's marshmallow schema classes are registered. Every registry of evaluators / providers / resolvers that the harness builds (sut.configure) also holds one of each kind that names no EDIFACT format and no format version; these must never be asked.",
    "technique": "property-based testing against a Boolean reference evaluator, exhaustive over truth assignments per expression",
}
LEVEL = "exploration"
RULE = (
    "Boolean expression over fc keys x all truth assignments x 4 evaluation routes; one unit = (string, truth "
    "assignment); non-trivial = nesting depth >= 2 with at least two different operators and both truth values "
    "present in the assignment; distinct by (string, assignment)"
)
ASSUMPTIONS = [
    "a fulfilled single constraint carries no error message (as every shipped producer guarantees); an unfulfilled one carries a message or gets the default message from evaluate_single_format_constraint",
]
BOUNDS = {"quick": {"max_atoms": 12}, "thorough": {"max_atoms": 24}}
KEYS = ["901", "932", "903", "935", "998", "999"]  # 932 / 935: keys for which FcEvaluator ships methods of its own

_EVALUATOR_CACHE = {}


def _plain_evaluator(truth, yielding=False):
    """
    a user-style FcEvaluator: evaluate_<key> methods (every second one async) that return (ok, None).
    yielding=True: every method is a coroutine that suspends, the earlier keys longer than the later ones, so that the
    evaluations complete in the reverse order of their start.
    """
    import asyncio

    from ahbicht.content_evaluation.fc_evaluators import FcEvaluator
    from ahbicht.content_evaluation.rc_evaluators import DictBasedRcEvaluator
    from ahbicht.expressions.hints_provider import DictBasedHintsProvider
    from ahbicht.expressions.package_expansion import DictBasedPackageResolver
    from ahbicht.models.condition_nodes import EvaluatedFormatConstraint

    class Plain(FcEvaluator):
        edifact_format = sut.FMT
        edifact_format_version = sut.VER

    for index, (key, value) in enumerate(sorted(truth.items())):
        if yielding:

            async def method(self, entered_input, value=value, pauses=2 * (len(truth) - index)):  # pylint:disable=unused-argument
                for _ in range(pauses):
                    await asyncio.sleep(0)
                return EvaluatedFormatConstraint(value, None)

        elif index % 2:

            async def method(self, entered_input, value=value):  # pylint:disable=unused-argument
                return EvaluatedFormatConstraint(value, None)

        else:

            def method(self, entered_input, value=value):  # pylint:disable=unused-argument
                return EvaluatedFormatConstraint(value, None)

        setattr(Plain, f"evaluate_{key}", method)
    others = [DictBasedRcEvaluator({}), DictBasedHintsProvider({}), DictBasedPackageResolver({})]
    for other in others:
        other.edifact_format, other.edifact_format_version = sut.FMT, sut.VER
    evaluator = Plain()

    # a second evaluator for another EDIFACT format is registered next to it (one evaluator per format is the normal
    # set-up); it implements the same keys with the opposite verdicts and must never be asked for UTILMD data
    from efoli import EdifactFormat

    class Decoy(FcEvaluator):
        edifact_format = EdifactFormat.MSCONS
        edifact_format_version = sut.VER

    for key, value in truth.items():

        def wrong(self, entered_input, value=value):  # pylint:disable=unused-argument
            return EvaluatedFormatConstraint(not value, None if value else "decoy")

        setattr(Decoy, f"evaluate_{key}", wrong)
    return [evaluator, Decoy()] + others


def _verdict(result, fulfilled_attr):
    return getattr(result, fulfilled_attr), result.error_message


def check(case):
    from ahbicht.models.condition_nodes import EvaluatedFormatConstraint

    api = evalhelp.api()
    ast, text = case["ast"], case["s"]
    keys = ref.keys_of(ast, "fc")
    units = []
    depth = ref.depth_of(ast)
    kinds = {n[0] for _, n in ref.sites(ast) if not ref.is_atom(n)}
    # parse once, evaluate under every truth assignment (building a truth table)
    parsed = sut.call(api.parse_cond, text)
    if not parsed.ok:
        fail("parse", f"well-formed expression {text!r} was not parsed: {parsed!r}")
    for combo in itertools.product([True, False], repeat=len(keys)):
        truth = dict(zip(keys, combo))
        expected = ref.bool_eval(ast, truth)
        routes = []
        inputs = {k: EvaluatedFormatConstraint(v, None if v else f"E{k}") for k, v in truth.items()}
        routes.append(("tree", sut.call(api.evaluate_format_constraint_tree, parsed.value, inputs), "format_constraint_fulfilled"))
        sut.setup_hardcoded(sut.make_cer(fc=truth))
        routes.append(("dict-evaluator", sut.call(api.format_constraint_evaluation, text), "format_constraints_fulfilled"))
        sut.configure(_plain_evaluator(truth))
        routes.append(("plain-evaluator", sut.call(api.format_constraint_evaluation, text), "format_constraints_fulfilled"))
        sut.configure(_plain_evaluator(truth, yielding=True))
        routes.append(("yielding-evaluator", sut.call(api.format_constraint_evaluation, text), "format_constraints_fulfilled"))
        # the Boolean clause is unconditional: the same again with unfulfilled constraints that carry no message at all
        # (what DictBasedFcEvaluator / ContentEvaluationResult based evaluators deliver for {"901": False}-style data);
        # a drawn subset of the unfulfilled keys stays silent, the message clause does not apply to these two routes
        silent = {k for i, k in enumerate(sorted(truth)) if not truth[k] and (i + len(truth)) % 2 == 0} or {k for k in truth if not truth[k]}
        quiet_inputs = {k: EvaluatedFormatConstraint(v, None if (v or k in silent) else f"E{k}") for k, v in truth.items()}
        quiet = [("tree, silent unfulfilled constraints", sut.call(api.evaluate_format_constraint_tree, parsed.value, quiet_inputs), "format_constraint_fulfilled")]
        sut.setup_hardcoded(sut.make_cer(fc={k: (v if (v or k not in silent) else [False, None]) for k, v in truth.items()}))
        quiet.append(("dict-evaluator, silent unfulfilled constraints", sut.call(api.format_constraint_evaluation, text), "format_constraints_fulfilled"))
        for name, res, attr in quiet:
            if not res.ok:
                fail("raises", f"{name}: {text!r} under {truth} (no message for {sorted(silent)}) raised {res!r}")
            if _verdict(res.value, attr)[0] is not expected:
                fail("boolean-value", f"{name}: {text!r} under {truth} (no message for {sorted(silent)}) = {_verdict(res.value, attr)[0]!r}, "
                     f"Boolean evaluation gives {expected}")  # fmt: skip
        for name, res, attr in routes:
            if not res.ok:
                fail("raises", f"{name}: {text!r} under {truth} raised {res!r}")
            value, message = _verdict(res.value, attr)
            if value is not expected:
                fail("boolean-value", f"{name}: {text!r} under {truth} = {value!r}, Boolean evaluation gives {expected}")
            if (message is not None) != (not expected):
                fail("message-iff-unfulfilled", f"{name}: {text!r} under {truth} is {'un' if not expected else ''}fulfilled "
                     f"but error_message = {message!r}")  # fmt: skip
            if message is not None and not isinstance(message, str):
                fail("message-iff-unfulfilled", f"{name}: error_message {message!r} is not a string")
        units.append(([text, truth], depth >= 2 and len(kinds) >= 2 and len(set(combo)) == 2))
    return {"_units": units}


def classify(case, info):
    ast = case["ast"]
    labels = [f"keys={len(ref.keys_of(ast, 'fc'))}", f"depth={min(ref.depth_of(ast), 4)}"]
    kinds = {n[0] for _, n in ref.sites(ast) if not ref.is_atom(n)}
    labels.append(f"operators={len(kinds)}")
    return labels, any(n for _, n in info["_units"])


def check_absent(case):
    api = evalhelp.api()
    sut.setup_hardcoded(sut.make_cer())
    res = sut.call(api.format_constraint_evaluation, case["expression"])
    if not res.ok:
        fail("absent-raises", f"format_constraint_evaluation({case['expression']!r}) raised {res!r}")
    if (res.value.format_constraints_fulfilled, res.value.error_message) != (True, None):
        fail("absent", f"format_constraint_evaluation({case['expression']!r}) = {res.value!r}, expected fulfilled without message")
    return {}


def strategy(tier):
    size = BOUNDS[tier]["max_atoms"]

    @st.composite
    def build(draw):
        keys = KEYS[: draw(st.integers(1, 6))]
        atom = st.builds(lambda k: ["fc", k], st.sampled_from(keys))
        ast = draw(gen.g_expr(max_atoms=size, atom=atom, kinds=("or", "xor", "and")))
        return {"ast": ast, "s": gen.render(draw, ast)}

    return build()


STAGES = [
    Stage(name="boolean", kind="hyp", check=check, classify=classify, strategy=strategy,
          budget={"quick": 250, "thorough": 2500}, floors={"operators=2": 0.15},
          sample=lambda c: {"s": c["s"]}),
    Stage(name="absent", kind="enum", check=check_absent, classify=lambda c, i: (["absent"], True),
          enumerate=lambda tier, shard, nshards, seed: [{"expression": None}, {"expression": ""}] if shard == 0 else [],
          exhaustive=True),
    large.stage("many-tokens", large.c08_check, large.c08_cases),
]  # fmt: skip
