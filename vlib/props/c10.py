"""
C10 - Resolving packages and time conditions is exact bracketed substitution.

A package table and an expression using its packages (and time conditions) are generated; the expected tree is
obtained by *textual* substitution ([nP..] -> "(" body ")", [UB1] -> [932], [UB2] -> [934],
[UB3] -> ([932][492]X[934][493]); one level of packages) followed by a plain parse without any resolution.
"""

import asyncio

import os

from hypothesis import strategies as st

from vlib import evalhelp, gen, ref, sut
from vlib import large
from vlib.core import Stage, fail

ID = "C10"
MANIFEST = {
    "category": "exploration",
    "text": "Generated-input search: package tables (1-5 package keys mapped to well-formed expressions that may themselves contain time conditions and packages, or mapped to nothing / absent) x condition and AHB expressions using those packages repeatedly, adjacently, with and without repeatability, plus time conditions. The tree from parse_expression_including_unresolved_subexpressions(resolve_packages=True, replace_time_conditions=True) - and from expand_packages / expand_time_conditions applied separately - must equal the tree of the textually substituted string parsed without resolution (exact equality; equality modulo regrouping inside one-operator runs is accepted and counted); a package without expression must abort with NotImplementedError; no coroutine may be left in the tree; exactly one level is expanded. Stage many-packages (enumerated): 25-32 (thorough: 12-120) package occurrences with a suspending resolver, resolved three times on new event loops, compared with the tree of the substituted text. Stage no-packages: expressions without any package resolved with resolve_packages=True / handed to expand_packages while no, another version's, or a matching package resolver is registered; the tree must equal the plain parse. Two more resolver kinds: the shipped JsonFilePackageResolver fed with the dict layout and with the list layout of the package table (a package without expression written as null). Two more situations: the only package resolver that is registered belongs to another format version / another format than the evaluatable data - then every package is unknown and the resolution must abort with NotImplementedError.",
    "note": "Trusted: ref.subst_packages / subst_time (regular-expression substitution written from the statement), the plain parsers as judged by C01/C02. Bounded: <= 8/14 atoms per expression, <= 5 packages. Process configuration by shard (vlib/sut.py; recorded in replay files): plain / parse caches preheated beyond their size / warnings attributed to ahbicht raised as errors / logging fully enabled with every record rendered; one event loop per process or a new one per call; five process time zones; the hash seed is the shard number; namesakes of ahbicht's marshmallow schema classes are registered. Every registry of evaluators / providers / resolvers that the harness builds (sut.configure) also holds one of each kind that names no EDIFACT format and no format version; these must never be asked.",
    "technique": "property-based testing with a differential oracle (resolve(s) vs parse(textual substitution of s))",
}
LEVEL = "exploration"
RULE = (
    "package table x expression; non-trivial = >= 2 abbreviation occurrences and at least one of: the same package "
    "twice, two abbreviations adjacent by juxtaposition or one operator, a time condition inside a used package, an "
    "abbreviation in an AHB part other than the first; distinct by (string, table)"
)
ASSUMPTIONS = [
    "repeatabilities satisfy 0<=n<=m, m>=1 (Repeatability rejects others with ValueError; outside the statement)",
    "package bodies are well-formed condition expressions",
]
BOUNDS = {"quick": {"max_atoms": 8}, "thorough": {"max_atoms": 14}}


_CER_HOLDER = []


def _providers(table):
    from ahbicht.content_evaluation.fc_evaluators import DictBasedFcEvaluator
    from ahbicht.content_evaluation.rc_evaluators import DictBasedRcEvaluator
    from ahbicht.expressions.hints_provider import DictBasedHintsProvider
    from ahbicht.expressions.package_expansion import DictBasedPackageResolver

    providers = [DictBasedRcEvaluator({}), DictBasedFcEvaluator({}), DictBasedHintsProvider({}), DictBasedPackageResolver(table)]
    for provider in providers:
        provider.edifact_format, provider.edifact_format_version = sut.FMT, sut.VER
    return providers


def _structure(tree):
    """tree modulo regrouping inside one-operator runs"""
    from lark import Tree

    if isinstance(tree, Tree) and tree.data == "ahb_expression":
        out = []
        for child in tree.children:
            if not isinstance(child, Tree):
                return None
            cond = ref.tree_to_ast(child.children[1], False) if len(child.children) == 2 else None
            out.append([child.data, str(child.children[0]), cond])
        return out
    return ref.tree_to_ast(tree, False)


def _leftovers(tree):
    from lark import Token, Tree

    bad = []

    def walk(node):
        if isinstance(node, Tree):
            for child in node.children:
                walk(child)
        elif not isinstance(node, Token):
            bad.append(repr(node)[:80])

    walk(tree)
    return bad


def _close(obj):
    """close never-awaited coroutines left in a tree, to keep the process quiet"""
    from lark import Tree

    if isinstance(obj, Tree):
        for child in obj.children:
            _close(child)
    elif asyncio.iscoroutine(obj):
        obj.close()


def check(case):
    from ahbicht.expressions.expression_resolver import expand_packages, expand_time_conditions

    api = evalhelp.api()
    text, table = case["s"], case["table"]
    used = case["used"]
    missing = [k for k in used if table.get(k) is None]
    if case.get("resolver") == "cer":
        # the shipped ContentEvaluationResult based resolver (packages are taken from the evaluatable data);
        # it can only express "absent", so None entries are dropped
        from contextvars import ContextVar

        holder = _CER_HOLDER or ContextVar("c10_cer", default=None)
        if not _CER_HOLDER:
            _CER_HOLDER.append(holder)
        holder = _CER_HOLDER[0]
        known = {k: v for k, v in table.items() if v is not None}
        cer = sut.make_cer(packages=known)
        if not known:
            cer.packages = None  # no package table at all (the class default) - "a package table that maps to nothing"
        holder.set(cer)
        sut.setup_cer_based(holder)
    elif case.get("resolver") in ("jsonfile-dict", "jsonfile-list"):
        # the shipped JsonFilePackageResolver, fed with a file of one of its two documented layouts; a package without
        # expression is written as null
        import json
        import tempfile

        from ahbicht.expressions.package_expansion import JsonFilePackageResolver

        if case["resolver"] == "jsonfile-dict":
            body = dict(table)
        else:
            body = [{"edifact_format": str(sut.FMT.value), "package_key": k, "package_expression": v} for k, v in table.items()]
        with tempfile.NamedTemporaryFile("w", suffix=".json", delete=False, encoding="utf-8") as handle:
            json.dump(body, handle)
        try:
            from pathlib import Path

            built = sut.call(JsonFilePackageResolver, sut.FMT, sut.VER, Path(handle.name))
        finally:
            os.unlink(handle.name)
        if not built.ok:
            fail("resolver-construction", f"JsonFilePackageResolver could not be built from the {case['resolver'][9:]} layout of the "
                 f"package table {table!r}: {built!r}")  # fmt: skip
        sut.configure([built.value])
    elif case.get("resolver") in ("other-version-only", "other-format-only"):
        # the only package resolver there is belongs to another format version / another format than the evaluatable
        # data: for these data every package is unknown, whatever that resolver's table says
        from ahbicht.expressions.package_expansion import DictBasedPackageResolver
        from efoli import EdifactFormat, EdifactFormatVersion

        foreign = DictBasedPackageResolver({k: v for k, v in table.items() if v is not None} or {"1P": "[1]"})
        if case["resolver"] == "other-version-only":
            foreign.edifact_format = sut.FMT
            foreign.edifact_format_version = next(v for v in (EdifactFormatVersion.FV2304, EdifactFormatVersion.FV2404) if v != sut.VER)
        else:
            foreign.edifact_format = next(f for f in (EdifactFormat.MSCONS, EdifactFormat.UTILMD) if f != sut.FMT)
            foreign.edifact_format_version = sut.VER
        sut.configure([foreign], bystanders=False)
        missing = list(used)
    elif case.get("resolver") == "formatless":
        # evaluators as ahbicht's own factory builds them when no format is given, behind a single-set provider
        sut.setup_hardcoded(sut.make_cer(packages={k: v for k, v in table.items() if v is not None}), formatless=True)
    else:
        sut.configure(_providers(table))
    actual = sut.call(api.resolve, text, True, True)
    info = {"regrouped": False, "missing": bool(missing)}
    if missing:
        if actual.ok:
            _close(actual.value)
            fail("unknown-package", f"{text!r} uses {missing} which the resolver does not know, but a tree was returned")
        if not actual.is_a(NotImplementedError):
            fail("unknown-package", f"{text!r} uses unknown {missing}: expected NotImplementedError, got {actual!r}")
        return info
    if not actual.ok:
        fail("resolve-raises", f"resolving {text!r} with {table} raised {actual!r}")
    expected_text = ref.subst_time(ref.subst_packages(text, table, time_too=True))
    expected = sut.call(api.resolve, expected_text, False, False)
    if not expected.ok:
        raise AssertionError(f"substituted text {expected_text!r} of {text!r} does not parse: {expected!r}")
    left = _leftovers(actual.value)
    if left:
        _close(actual.value)
        fail("leftover", f"resolved tree of {text!r} contains non-token leaves {left}")

    def compare(got, want, what):
        if got == want:
            return
        if _structure(got) is not None and _structure(got) == _structure(want):
            info["regrouped"] = True
            return
        fail(what, f"{what}: {text!r} with {table}: resolved tree differs from the tree of {expected_text!r}:\n"
             f"  got      {_structure(got)}\n  expected {_structure(want)}")  # fmt: skip

    compare(actual.value, expected.value, "substitution")
    # the two expansion steps on their own
    plain = sut.call(api.resolve, text, False, False)
    if not plain.ok:
        fail("resolve-raises", f"plain parse of {text!r} raised {plain!r}")
    only_packages = sut.call(expand_packages, plain.value)
    if not only_packages.ok:
        fail("resolve-raises", f"expand_packages on {text!r} raised {only_packages!r}")
    want = sut.call(api.resolve, ref.subst_packages(text, table, time_too=False), False, False)
    compare(only_packages.value, want.value, "expand_packages")
    # a second expansion of the same parsed tree is again exactly one level of substitution
    second = sut.call(expand_packages, plain.value)
    if not second.ok:
        fail("resolve-raises", f"a second expand_packages on the parsed tree of {text!r} raised {second!r}")
    compare(second.value, want.value, "expand_packages (second call on the same parsed tree)")
    compare(only_packages.value, want.value, "expand_packages (first result, after the second call)")
    plain = sut.call(api.resolve, text, False, False)
    only_time = sut.call(expand_time_conditions, plain.value)
    if not only_time.ok:
        fail("resolve-raises", f"expand_time_conditions on {text!r} raised {only_time!r}")
    want = sut.call(api.resolve, ref.subst_time(text), False, False)
    compare(only_time.value, want.value, "expand_time_conditions")
    # the parsed tree can still be given to expand_packages afterwards (time conditions first, then packages)
    both = sut.call(expand_packages, only_time.value)
    if not both.ok:
        fail("resolve-raises", f"expand_packages after expand_time_conditions on {text!r} raised {both!r}")
    want = sut.call(api.resolve, ref.subst_packages(ref.subst_time(text), table, time_too=False), False, False)
    compare(both.value, want.value, "expand_time_conditions, then expand_packages")
    return info


def _abbreviations(ast):
    return [a for a in ref.atoms_of(ast) if a[0] in ("pkg", "time")]


def _adjacent(ast):
    """two abbreviations that are neighbouring children of one node"""
    if ref.is_atom(ast):
        return False
    kids = ast[1]
    for left, right in zip(kids, kids[1:]):
        if left[0] in ("pkg", "time") and right[0] in ("pkg", "time"):
            return True
    return any(_adjacent(k) for k in kids)


def classify(case, info):
    asts = [p[1] for p in case["parts"] if p[1] is not None]
    abbreviations = [a for ast in asts for a in _abbreviations(ast)]
    packages = [a[1] for a in abbreviations if a[0] == "pkg"]
    labels = [f"abbreviations={min(len(abbreviations), 5)}", "ahb" if case["is_ahb"] else "condition",
              "resolver=" + case.get("resolver", "dict")]
    if info["missing"]:
        labels.append("unknown-package")
    if info["regrouped"]:
        labels.append("regrouped")
    twice = len(packages) != len(set(packages))
    adjacent = any(_adjacent(a) for a in asts)
    time_inside = any("UB" in (case["table"].get(k) or "") for k in set(packages))
    later_part = any(_abbreviations(a) for a in asts[1:])
    for name, flag in (("same-package-twice", twice), ("adjacent", adjacent), ("time-in-package", time_inside), ("later-part", later_part)):
        if flag:
            labels.append(name)
    if any(a[0] == "pkg" and a[2] for a in abbreviations):
        labels.append("repeatability")
    nontrivial = len(abbreviations) >= 2 and (twice or adjacent or time_inside or later_part) and not info["missing"]
    return labels, nontrivial


def strategy(tier):
    size = BOUNDS[tier]["max_atoms"]

    @st.composite
    def build(draw):
        keys = draw(st.lists(st.sampled_from(["1P", "2P", "10P", "44P", "123P", "999P"]), min_size=1, max_size=5, unique=True))
        body_atom = gen.any_atom(pkg_pool=keys + ["77P"])
        table = {}
        for key in keys:
            kind = draw(st.sampled_from(["expr"] * 12 + ["none", "absent"]))
            if kind == "expr":
                body = draw(gen.g_expr(max_atoms=max(2, size // 2), atom=body_atom))
                table[key] = gen.render(draw, body, redundant=draw(st.booleans()))
            elif kind == "none":
                table[key] = None
        atom = gen.any_atom(kinds=("rc", "hint", "fc", "pkg", "pkg", "pkg", "time"), pkg_pool=keys)
        is_ahb = draw(st.booleans())
        parts = []
        if is_ahb:
            shape = draw(gen.g_ahb_shape(max_parts=3, bare_ok=True))
            rendered = []
            for indicator, has_cond in shape:
                ast, cond = None, None
                if has_cond:
                    ast = draw(gen.g_expr(max_atoms=size, atom=atom))
                    cond = gen.render(draw, ast, redundant=draw(st.booleans()), top=False)
                parts.append([indicator, ast])
                rendered.append((indicator, cond))
            text = gen.render_ahb(draw, rendered)
        else:
            ast = draw(gen.g_expr(max_atoms=size, atom=atom))
            parts.append([None, ast])
            text = gen.render(draw, ast)
        used = sorted({a[1] for p in parts if p[1] is not None for a in ref.atoms_of(p[1]) if a[0] == "pkg"})
        return {"table": table, "parts": parts, "s": text, "is_ahb": is_ahb, "used": used,
                "resolver": draw(st.sampled_from(["dict", "dict", "cer", "formatless", "jsonfile-dict", "jsonfile-list", "dict",
                                                   "other-version-only", "other-format-only"]))}

    return build()


# ------------------------------------------------------------------ expressions without any package ("zero times")


def check_no_packages(case):
    """
    "However often an abbreviation occurs" includes not at all: an expression without packages, resolved with
    resolve_packages=True (validation always does so) or handed to expand_packages, must come back as its plain parse
    (time conditions replaced) - also where no package resolver applies to the evaluatable data.
    """
    from ahbicht.expressions.expression_resolver import expand_packages
    from ahbicht.expressions.hints_provider import DictBasedHintsProvider
    from ahbicht.expressions.package_expansion import DictBasedPackageResolver
    from efoli import EdifactFormatVersion

    api = evalhelp.api()
    text, providers = case["s"], case["providers"]
    sut.configure(_providers({}))
    wanted = sut.call(api.resolve, text, False, True)
    if not wanted.ok:
        fail("resolve-raises", f"resolving {text!r} without package resolution raised {wanted!r}")
    if providers == "hints-only":
        only = DictBasedHintsProvider({})
        only.edifact_format, only.edifact_format_version = sut.FMT, sut.VER
        sut.configure([only])
    elif providers == "other-version":
        resolvers = []
        for version in (EdifactFormatVersion.FV2304, EdifactFormatVersion.FV2404):
            resolver = DictBasedPackageResolver({"1P": "[1]"})
            resolver.edifact_format, resolver.edifact_format_version = sut.FMT, version
            resolvers.append(resolver)
        sut.configure(resolvers)
    else:
        sut.configure(_providers({"1P": "[1]"}))
    what = f"{text!r} (no package in it; registered: {providers})"
    res = sut.call(api.resolve, text, True, True)
    if not res.ok:
        fail("no-package-raises", f"resolving {what} with resolve_packages=True raised {res!r}")
    if ref.dump_tree(res.value) != ref.dump_tree(wanted.value):
        fail("no-package-differs", f"resolving {what} with resolve_packages=True gives another tree than without")
    plain = sut.call(api.resolve, text, False, False)
    expanded = sut.call(expand_packages, plain.value) if plain.ok else plain
    if not expanded.ok:
        fail("no-package-raises", f"expand_packages of the tree of {what} raised {expanded!r}")
    if ref.dump_tree(expanded.value) != ref.dump_tree(sut.call(api.resolve, text, False, False).value):
        fail("no-package-differs", f"expand_packages changed the tree of {what}")
    return {}


def strategy_no_packages(tier):
    size = BOUNDS[tier]["max_atoms"]

    @st.composite
    def build(draw):
        atom = gen.any_atom(kinds=("rc", "hint", "fc", "time", "time"))
        ast = draw(gen.g_expr(max_atoms=size, atom=atom))
        text = gen.render(draw, ast, redundant=draw(st.booleans()))
        if draw(st.booleans()):
            text = f"{draw(gen.indicator_text(gen.MODAL_WORDS + ['X', 'O', 'U']))} {text} "
        return {"s": text, "providers": draw(st.sampled_from(["hints-only", "other-version", "matching"]))}

    return build()


STAGES = [
    Stage(name="substitution", kind="hyp", check=check, classify=classify, strategy=strategy,
          budget={"quick": 350, "thorough": 3000}, key=lambda c: [c["s"], c["table"]],
          floors={"same-package-twice": 0.1, "adjacent": 0.1, "time-in-package": 0.1, "later-part": 0.03,
                  "unknown-package": 0.05, "ahb": 0.2},
          sample=lambda c: {"s": c["s"], "table": c["table"]}),
    Stage(name="no-packages", kind="hyp", check=check_no_packages, strategy=strategy_no_packages,
          classify=lambda c, i: (["registered=" + c["providers"]] + (["with-time-condition"] if "UB" in c["s"] else []), "UB" in c["s"]),
          budget={"quick": 60, "thorough": 600}, key=lambda c: [c["s"], c["providers"]]),
    large.stage("many-packages", large.c10_check, large.c10_cases),
]  # fmt: skip
