"""
C04 - Requirement-constraint evaluation equals the documented compositional semantics.

Valid expressions of the evaluation domain are generated as ASTs; a reference evaluator working on the AST (not on
Lark's tree) with independently written four-valued tables gives the expected state for every assignment.
"""

from hypothesis import strategies as st

from vlib import evalhelp, gen, ref, sut
from vlib import large
from vlib.core import Stage, fail

ID = "C04"
MANIFEST = {
    "category": "exploration",
    "text": "Generated-input search: valid expressions over requirement-constraint, hint and format-constraint keys (n-ary U/O/X nodes, juxtaposition attaching one format constraint to a hint or to an rc-carrying operand on either side, all spellings/whitespace/brackets) times all 3^k assignments for k<=4 keys (12 sampled ones incl. all-UNKNOWN beyond). A recursive reference evaluator over the AST with its own Kleene+NEUTRAL tables predicts the state; it is compared through evaluate_requirement_constraint_tree and through requirement_constraint_evaluation (string and already parsed tree; fulfilled/is_conditional mapping); one parsed tree is re-used for all assignments (parse once, evaluate often), so an evaluator that consumes or rewrites its input shows up as a wrong outcome under a later assignment. Any exception on an in-domain case is a violation. One slice is enumerated completely: every valid expression with up to 3 (thorough: 4) atoms over the keys [1], [2], [501], [901], [902] (1 335 / 35 356 expressions) under all assignments. For the first assignments of every expression the evaluation is repeated on a method-based RcEvaluator (with a decoy evaluator set of another format registered) and on the shipped ContentEvaluationResult based evaluators whose evaluatable data spell the states in mixed case. Stage many-keys (enumerated, by construction): right-nested expressions over 40-300 (thorough: -350) distinct requirement constraint keys, expected outcome by an iterative fold of the four-valued operators. For the first assignment of small expressions the evaluation is also done right after is_valid_expression in the same task (context-local data).",
    "note": "Trusted: reference evaluator and tables in vlib/ref.py (C03 ties the real tables to the same laws exhaustively; C01 ties Lark's grouping to the AST), generator in vlib/gen.py. Bounded by 12/30 atoms. Process configuration by shard (vlib/sut.py; recorded in replay files): plain / parse caches preheated beyond their size / warnings attributed to ahbicht raised as errors / logging fully enabled with every record rendered; one event loop per process or a new one per call; five process time zones; the hash seed is the shard number; namesakes of ahbicht's marshmallow schema classes are registered. Every registry of evaluators / providers / resolvers that the harness builds (sut.configure) also holds one of each kind that names no EDIFACT format and no format version; these must never be asked.",
    "technique": "property-based testing against a reference evaluator (model-based oracle on the generating AST)",
}
LEVEL = "exploration"
RULE = (
    "valid expressions of the evaluation domain x assignments in {F,U,UNKNOWN}^k; one unit = (expression string, "
    "assignment); non-trivial = expression with >= 2 operators and >= 1 rc key, and (UNKNOWN in the assignment or "
    "a neutral operand or a juxtaposition in the expression); distinct by (string, assignment)"
)
ASSUMPTIONS = [
    "evaluation domain as fixed by the quantifier: keys are rc/hint/fc; juxtaposition is binary and attaches a single fc key to a bare hint or to an operand containing an rc; unbracketed juxtaposition chains are not generated",
    "in n-ary all-neutral O/X runs a bare hint and a bare format constraint never occur together (validity would depend on the unspecified grouping)",
]
BOUNDS = {"quick": {"max_atoms": 12}, "thorough": {"max_atoms": 30}}


def check(case):
    api = evalhelp.api()
    ast, text = case["ast"], case["s"]
    if not ref.in_evaluation_domain(ast) or ref.validity(ast) != "valid":
        raise AssertionError(f"generator produced an out-of-domain case: {ast}")
    keys = ref.keys_of(ast, "rc")
    assignments = case["assignments"] if case["assignments"] != "all" else list(ref.product_assignments(keys))
    parsed = sut.call(api.parse_cond, text)
    if not parsed.ok:
        fail("parse", f"valid expression {text!r} was not parsed: {parsed!r}")
    structural = ref.count_ops(ast) >= 2 and bool(keys)
    neutral_or_then = any(a[0] in ("hint", "fc") for a in ref.atoms_of(ast))
    units = []
    # one parsed tree is evaluated under all assignments (parse once, evaluate often - as is_valid_expression does);
    # a second one is handed to the string/tree entry point as a Tree
    shared_tree = sut.call(api.parse_cond, text).value
    shared_tree_2 = sut.call(api.parse_cond, text).value
    for assignment in assignments:
        expected = ref.state(ast, assignment)
        # entry point 1: the tree evaluator with hand-made nodes
        tree = shared_tree
        res = sut.call(lambda: api.evaluate_requirement_constraint_tree(tree, evalhelp.input_nodes(ast, assignment)))
        if not res.ok:
            fail("tree-raises", f"evaluate_requirement_constraint_tree({text!r}, {assignment}) raised {res!r}")
        got = sut.letter(res.value.conditions_fulfilled)
        if got != expected:
            fail("tree-state", f"{text!r} under {assignment}: tree evaluation gives {got}, semantics say {expected}")
        # entry point 2: the string evaluator with injected evaluators
        evalhelp.setup_for(ast, assignment)
        res = sut.call(api.requirement_constraint_evaluation, text)
        if not res.ok:
            fail("evaluation-raises", f"requirement_constraint_evaluation({text!r}) under {assignment} raised {res!r}")
        outcome = evalhelp.outcome_of(res.value)
        if outcome != ref.OUTCOME[expected]:
            fail("outcome", f"{text!r} under {assignment}: (fulfilled, conditional) = {outcome}, "
                 f"state {expected} must be reported as {ref.OUTCOME[expected]}")  # fmt: skip
        # entry point 2 with user-style evaluators (one evaluate_<key> method per condition, a hints provider class), next
        # to which evaluators for another EDIFACT format with the opposite answers are registered
        from vlib import sched

        hints = {a[1]: f"Hinweis {a[1]}" for a in ref.atoms_of(ast) if a[0] == "hint"}
        fcs = {a[1]: True for a in ref.atoms_of(ast) if a[0] == "fc"}
        method_based = len(units) < 8  # building evaluator classes is comparatively slow: the first 8 assignments only
        if method_based:
            sut.configure(sched.make_providers(sched.Schedule([]), rc=assignment, fc=fcs, hints=hints))
            res = sut.call(api.requirement_constraint_evaluation, text)
        if method_based and not res.ok:
            fail("evaluation-raises", f"requirement_constraint_evaluation({text!r}) with method-based evaluators under {assignment} raised {res!r}")
        if method_based and evalhelp.outcome_of(res.value) != ref.OUTCOME[expected]:
            fail("outcome", f"{text!r} under {assignment} with method-based evaluators (a second evaluator set for another "
                 f"format is registered too): {evalhelp.outcome_of(res.value)}, expected {ref.OUTCOME[expected]}")  # fmt: skip
        # entry point 2 with the shipped ContentEvaluationResult based evaluators, the requirement states spelled in
        # mixed case in the evaluatable data
        if method_based:
            evalhelp.setup_for(ast, assignment, style="cer-recased")
            res = sut.call(api.requirement_constraint_evaluation, text)
            if not res.ok:
                fail("evaluation-raises", f"requirement_constraint_evaluation({text!r}) with ContentEvaluationResult based evaluators under {assignment} raised {res!r}")
            if evalhelp.outcome_of(res.value) != ref.OUTCOME[expected]:
                fail("outcome", f"{text!r} under {assignment} with ContentEvaluationResult based evaluators (states spelled in mixed "
                     f"case in the evaluatable data): {evalhelp.outcome_of(res.value)}, expected {ref.OUTCOME[expected]}")  # fmt: skip
        # a composition of public functions within one task: store the own data in context-local storage, ask
        # is_valid_expression (which evaluates all possible content evaluation results through the same setter), then
        # evaluate - the outcome must still be the one of the own data
        if not units and len(ref.keys_of(ast, "rc")) <= 3 and len(ref.keys_of(ast, "fc")) <= 2:
            from ahbicht.content_evaluation import is_valid_expression

            evalhelp.setup_for(ast, assignment, style="cer")

            async def validity_then_evaluation():
                own = evalhelp._CER.get()  # pylint:disable=protected-access
                evalhelp._CER.set(own)  # pylint:disable=protected-access
                verdict = await is_valid_expression("Muss " + text, evalhelp._CER.set)  # pylint:disable=protected-access
                return verdict, await api.requirement_constraint_evaluation(text)

            res = sut.call(validity_then_evaluation)
            if not res.ok:
                fail("evaluation-raises", f"is_valid_expression followed by requirement_constraint_evaluation of {text!r} under {assignment} raised {res!r}")
            if res.value[0] != (True, None):
                fail("outcome", f"is_valid_expression('Muss ' + {text!r}) = {res.value[0]!r} for a valid expression")
            if evalhelp.outcome_of(res.value[1]) != ref.OUTCOME[expected]:
                fail("outcome", f"{text!r} under {assignment}, evaluated right after is_valid_expression in the same task (context-local "
                     f"data): {evalhelp.outcome_of(res.value[1])}, expected {ref.OUTCOME[expected]}")  # fmt: skip
        # entry point 2 again, this time given the already parsed tree
        evalhelp.setup_for(ast, assignment)
        res = sut.call(api.requirement_constraint_evaluation, shared_tree_2)
        if not res.ok:
            fail("evaluation-raises", f"requirement_constraint_evaluation(tree of {text!r}) under {assignment} raised {res!r}")
        if evalhelp.outcome_of(res.value) != ref.OUTCOME[expected]:
            fail("outcome", f"tree of {text!r} under {assignment} (the same tree was evaluated before under other "
                 f"assignments): (fulfilled, conditional) = {evalhelp.outcome_of(res.value)}, expected {ref.OUTCOME[expected]}")  # fmt: skip
        nontrivial = structural and ("K" in assignment.values() or neutral_or_then)
        units.append(([text, assignment], nontrivial))
    return {"_units": units}


def classify(case, info):
    ast = case["ast"]
    labels = [f"rc-keys={min(len(ref.keys_of(ast, 'rc')), 6)}", f"ops={min(ref.count_ops(ast), 8)}"]
    kinds = {a[0] for a in ref.atoms_of(ast)}
    labels += [f"has-{k}" for k in sorted(kinds)]

    def has_then(node):
        return not ref.is_atom(node) and (node[0] == "then" or any(has_then(c) for c in node[1]))

    if has_then(ast):
        labels.append("has-juxtaposition")
    if not ref.has_rc(ast):
        labels.append("neutral-root")
    return labels, any(n for _, n in info["_units"])


def strategy(tier):
    size = BOUNDS[tier]["max_atoms"]

    @st.composite
    def build(draw):
        ast = draw(gen.g_dom(max_atoms=size, mode="valid"))
        text = gen.render(draw, ast)
        keys = ref.keys_of(ast, "rc")
        if len(keys) <= 4:
            assignments = "all"
        else:
            assignments = [dict.fromkeys(keys, "K")]
            assignments += [draw(gen.rc_assignment(keys)) for _ in range(11)]
        return {"ast": ast, "s": text, "assignments": assignments}

    return build()


SMALL = {"quick": 3, "thorough": 4}


def enumerate_small(tier, shard, nshards, seed):  # pylint:disable=unused-argument
    """every valid expression with up to 3 (thorough: 4) atoms over {[1], [2], [501], [901], [902]}, all assignments"""
    index = 0
    for ast in ref.enumerate_small_dom(SMALL[tier]):
        if ref.validity(ast) != "valid":
            continue
        if index % nshards == shard:
            yield {"ast": ast, "s": ref.canonical(ast), "assignments": "all"}
        index += 1


STAGES = [
    Stage(name="semantics", kind="hyp", check=check, classify=classify, strategy=strategy,
          budget={"quick": 400, "thorough": 4000}, floors={"has-juxtaposition": 0.2, "has-hint": 0.2},
          sample=lambda c: {"s": c["s"], "assignments": c["assignments"] if c["assignments"] == "all" else c["assignments"][:2]}),
    Stage(name="small-scope", kind="enum", check=check, classify=classify, enumerate=enumerate_small, exhaustive=True,
          sample=lambda c: {"s": c["s"], "assignments": "all"}),
    large.stage("many-keys", large.c04_check, large.c04_cases),
]  # fmt: skip
