"""
C05 - Hints, format constraints, brackets, operand order never change the requirement.

Metamorphic: a valid expression and a transformed copy (hint and-ed on, format constraint attached, redundant
brackets, operands swapped) must both evaluate, and to the same (fulfilled, is_conditional).  No reference model is
involved; the relation between two runs of the real code is the oracle.  Stage `refine`: a definite outcome under a
partial assignment must be the outcome of every refinement of its UNKNOWN entries.
"""

import itertools

from hypothesis import strategies as st

from vlib import evalhelp, gen, ref, sut
from vlib import large
from vlib.core import Stage, fail

ID = "C05"
MANIFEST = {
    "category": "exploration",
    "text": "Generated-input search with metamorphic oracles: for a generated valid expression, a drawn site and a drawn transformation (and-ing a hint onto the root or onto any operand of U/O/X, attaching a format constraint on either side of any rc-carrying sub-expression, re-rendering with redundant brackets/other spelling, permuting the operands of any U/O/X) the transformed expression must still evaluate (no InvalidExpressionError, no other exception) and yield the identical (fulfilled, is_conditional) under 1-8 assignments. Original and variant are additionally parsed once each and the two Tree objects evaluated under all the assignments one after the other (tree entry point): same outcomes as from the strings. The refine stage blanks 1-3 keys of a total assignment to UNKNOWN and, when the outcome stays definite, checks every FULFILLED/UNFULFILLED refinement. The evaluator style (dict based / shipped ContentEvaluationResult based / the latter with mixed-case states) and the hint texts (incl. the empty text, '%', braces, quotes) are part of the generated case. Stage many-occurrences (enumerated): expressions with 102-131 (thorough: 65-261) occurrences of two keys and their swapped / hinted / constrained variants. A quarter of the format-constraint attachments attach a bracketed composition of two format constraints on the right.",
    "note": "Trusted: AST transformations and renderer in this module / vlib/gen.py. Only the requirement outcome is compared (hints and the collected format-constraint expression legitimately change). Bounded by 12/30 atoms. Process configuration by shard (vlib/sut.py; recorded in replay files): plain / parse caches preheated beyond their size / warnings attributed to ahbicht raised as errors / logging fully enabled with every record rendered; one event loop per process or a new one per call; five process time zones; the hash seed is the shard number; namesakes of ahbicht's marshmallow schema classes are registered. Every registry of evaluators / providers / resolvers that the harness builds (sut.configure) also holds one of each kind that names no EDIFACT format and no format version; these must never be asked.",
    "technique": "property-based testing with metamorphic relations (transformed expression vs original; partial vs refined assignment)",
}
LEVEL = "exploration"
RULE = (
    "valid expression x transformation site/kind x assignments; one unit = (original, transformed, assignment); "
    "non-trivial = transformation applied strictly below the root (stage transform) or a definite outcome with >= 1 "
    "UNKNOWN key that the expression really depends on syntactically (stage refine); distinct by "
    "(strings, assignment)"
)
ASSUMPTIONS = [
    "same evaluation domain as C04",
    "only (requirement_constraints_fulfilled, requirement_is_conditional) is compared",
]
BOUNDS = {"quick": {"max_atoms": 10}, "thorough": {"max_atoms": 24}}


def _outcome(api, text, ast_for_setup, assignment, what, style="hardcoded", hint_texts=None):
    evalhelp.setup_for(ast_for_setup, assignment, style=style, hint_texts=hint_texts)
    res = sut.call(api.requirement_constraint_evaluation, text)
    if not res.ok:
        if res.is_a(sut.InvalidExpressionError):
            fail(f"{what}-invalid", f"{text!r} raised InvalidExpressionError under {assignment}: {res!r}")
        fail(f"{what}-raises", f"{text!r} raised {res!r} under {assignment}")
    return evalhelp.outcome_of(res.value)


def check_transform(case):
    api = evalhelp.api()
    units, outcomes = [], []
    for assignment in case["assignments"]:
        style, texts = case.get("style", "hardcoded"), case.get("hint_texts")
        base = _outcome(api, case["s"], case["ast"], assignment, "original", style, texts)
        changed = _outcome(api, case["t_s"], case["t_ast"], assignment, "transformed", style, texts)
        if base != changed:
            fail("outcome-changed", f"{case['kind']} at {case['site']}: {case['s']!r} -> {base} but "
                 f"{case['t_s']!r} -> {changed} under {assignment}")  # fmt: skip
        units.append(([case["s"], case["t_s"], assignment], len(case["site"]) > 0))
        outcomes.append(base)
    # the same two Tree objects evaluated under one assignment after the other (the tree entry point of the same
    # function): what an earlier assignment left behind must not show in a later outcome (seed C05-o)
    trees = []
    for text in (case["s"], case["t_s"]):
        parsed = sut.call(api.parse_cond, text)
        if not parsed.ok:
            fail("tree-raises", f"parse_condition_expression_to_tree({text!r}) raised {parsed!r}")
        trees.append(parsed.value)
    for assignment, expected in zip(case["assignments"], outcomes):
        for text, tree in zip((case["s"], case["t_s"]), trees):
            evalhelp.setup_for(case["ast"] if text is case["s"] else case["t_ast"], assignment,
                               style=case.get("style", "hardcoded"), hint_texts=case.get("hint_texts"))  # fmt: skip
            res = sut.call(api.requirement_constraint_evaluation, tree)
            if not res.ok:
                fail("tree-raises", f"the tree of {text!r}, evaluated again under {assignment}, raised {res!r}")
            if evalhelp.outcome_of(res.value) != expected:
                fail("tree-outcome-changed", f"{case['kind']} at {case['site']}: the tree of {text!r}, evaluated for the "
                     f"assignments {case['assignments']} one after the other, gives {evalhelp.outcome_of(res.value)} under "
                     f"{assignment}; the string gives {expected}")  # fmt: skip
    return {"_units": units}


def classify_transform(case, info):
    labels = ["kind=" + case["kind"], f"site-depth={min(len(case['site']), 4)}", "evaluators=" + case.get("style", "hardcoded")]
    if "" in (case.get("hint_texts") or {}).values():
        labels.append("empty-hint-text")
    if any("K" in a.values() for a in case["assignments"]):
        labels.append("has-unknown")
    return labels, any(n for _, n in info["_units"])


def check_refine(case):
    api = evalhelp.api()
    ast, text, assignment = case["ast"], case["s"], case["assignment"]
    base = _outcome(api, text, ast, assignment, "original")
    unknown = [k for k, v in assignment.items() if v == "K"]
    definite = base[0] is not None
    count = 0
    if definite:
        for combo in itertools.product("FU", repeat=len(unknown)):
            refined = dict(assignment)
            refined.update(zip(unknown, combo))
            got = _outcome(api, text, ast, refined, "refined")
            count += 1
            if got != base:
                fail("refinement", f"{text!r}: outcome {base} under {assignment} but {got} under the refinement {refined}")
    return {"definite": definite, "_units": [([text, assignment], definite and bool(unknown))], "refinements": count}


def classify_refine(case, info):
    labels = ["definite" if info["definite"] else "undetermined", f"unknown-keys={sum(v == 'K' for v in case['assignment'].values())}"]
    return labels, info["definite"]


# ---------------------------------------------------------------------------------------------- AST surgery


def sites(node, path=()):
    yield path, node
    if not ref.is_atom(node):
        for index, child in enumerate(node[1]):
            yield from sites(child, path + (index,))


def parent_of(root, path):
    node = root
    for index in path[:-1]:
        node = node[1][index]
    return node


def replace_at(node, path, func):
    if not path:
        return func(node)
    children = list(node[1])
    children[path[0]] = replace_at(children[path[0]], path[1:], func)
    return [node[0], children]


def strategy_transform(tier):
    size = BOUNDS[tier]["max_atoms"]

    @st.composite
    def build(draw):
        ast = draw(gen.g_dom(max_atoms=size, mode="valid"))
        all_sites = list(sites(ast))
        kind = draw(st.sampled_from(["hint", "fc", "brackets", "swap"]))
        t_ast, site = ast, ()
        if kind == "hint":
            # the root or any operand of U/O/X
            cand = [p for p, _ in all_sites if not p or parent_of(ast, p)[0] in ("and", "or", "xor")]
            site = draw(st.sampled_from(cand))
            hint = ["hint", draw(gen.hint_key())]
            left = draw(st.booleans())
            t_ast = replace_at(ast, site, lambda x: ["and", [hint, x] if left else [x, hint]])
        elif kind == "fc":
            cand = [p for p, n in all_sites if ref.has_rc(n)]
            if not cand:
                kind = "brackets"
            else:
                site = draw(st.sampled_from(cand))
                fc_atom = ["fc", draw(gen.fc_key())]
                left = draw(st.sampled_from([False, False, True]))
                if draw(st.sampled_from(range(4))) == 0:
                    # a bracketed composition of format constraints (what a package of them expands to), on the right
                    fc_atom = [draw(st.sampled_from(["and", "or", "xor"])), [fc_atom, ["fc", draw(gen.fc_key())]]]
                    left = False
                t_ast = replace_at(ast, site, lambda x: ["then", [fc_atom, x] if left else [x, fc_atom]])
        if kind == "swap":
            cand = [p for p, n in all_sites if not ref.is_atom(n) and n[0] in ("and", "or", "xor")]
            if not cand:
                kind = "brackets"
            else:
                site = draw(st.sampled_from(cand))
                target = parent_of(ast, site + (0,)) if site else ast
                order = draw(st.permutations(range(len(target[1]))))
                if list(order) == list(range(len(order))):
                    order = list(reversed(order))
                t_ast = replace_at(ast, site, lambda x: [x[0], [x[1][i] for i in order]])
        text = gen.render(draw, ast, redundant=False)
        t_text = gen.render(draw, t_ast, redundant=(kind == "brackets") or draw(st.booleans()))
        if kind == "brackets":
            site = (0,) if text.strip(ref.WS_CHARS) != t_text.strip(ref.WS_CHARS) else ()
        keys = ref.keys_of(t_ast, "rc")
        if len(keys) <= 2:
            assignments = list(ref.product_assignments(keys))
        else:
            assignments = [draw(gen.rc_assignment(keys)) for _ in range(6)]
            assignments.append(draw(gen.rc_assignment(keys, values="FU")))
            assignments.append(draw(gen.rc_assignment(keys, values="UK")))
        if ref.validity(t_ast) != "valid":
            # by the statement the transformations keep an expression valid; the structural criterion agrees
            raise AssertionError(f"transformation {kind} produced an expression the criterion calls invalid: {t_ast}")
        hint_keys = ref.keys_of(t_ast, "hint")
        texts = {k: draw(st.sampled_from(gen.HINT_TEXTS)).replace("{key}", k) for k in hint_keys}
        return {"ast": ast, "s": text, "t_ast": t_ast, "t_s": t_text, "kind": kind, "site": list(site),
                "assignments": assignments, "style": draw(st.sampled_from(["hardcoded", "hardcoded", "cer", "cer-recased"])),
                "hint_texts": texts}  # fmt: skip

    return build()


def strategy_refine(tier):
    size = BOUNDS[tier]["max_atoms"]

    @st.composite
    def build(draw):
        ast = draw(gen.g_dom(max_atoms=size, mode="valid", neutral_root=False))
        keys = ref.keys_of(ast, "rc")
        assignment = draw(gen.rc_assignment(keys, values="FU"))
        blanks = draw(st.lists(st.sampled_from(keys), min_size=1, max_size=min(3, len(keys)), unique=True))
        for key in blanks:
            assignment[key] = "K"
        return {"ast": ast, "s": gen.render(draw, ast), "assignment": assignment}

    return build()


STAGES = [
    Stage(name="transform", kind="hyp", check=check_transform, classify=classify_transform, strategy=strategy_transform,
          budget={"quick": 300, "thorough": 4000},
          floors={"kind=hint": 0.15, "kind=fc": 0.12, "kind=swap": 0.1, "kind=brackets": 0.15},
          sample=lambda c: {"s": c["s"], "t_s": c["t_s"], "kind": c["kind"], "site": c["site"], "assignments": c["assignments"][:2]}),
    Stage(name="refine", kind="hyp", check=check_refine, classify=classify_refine, strategy=strategy_refine,
          budget={"quick": 300, "thorough": 4000}, floors={"definite": 0.1},
          sample=lambda c: {"s": c["s"], "assignment": c["assignment"]}),
    large.stage("many-occurrences", large.c05_check, large.c05_cases),
]  # fmt: skip
