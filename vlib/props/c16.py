"""
C16 - An invalid expression makes one node optional and never aborts validation.

Fault injection: into a generated deep AHB a non-empty subset of nodes (groups, segments, free-text elements,
value-pool entries) gets a well-formed but *invalid* expression (also as a later part of a multi-part expression,
also hidden inside a package).  Differential oracle: the same AHB with every injected expression replaced by 'Kann'.
"""

import copy

from hypothesis import strategies as st

from vlib import gen, ref, sut, vtree
from vlib.core import Stage, fail

ID = "C16"
MANIFEST = {
    "category": "fault_enumeration",
    "text": "Generated fault injection with a differential oracle: deep AHBs x content evaluation results x a drawn non-empty set of nodes (groups, segments, free-text elements, entries of value pools) each receiving a structurally invalid expression (neutral-vs-requirement O/X mix or bare hint/format-constraint pair at any depth; under any indicator; alone, as a later modal-mark part, hidden in a package, or with up to four of its parts - at any depth - written as packages of their own; also every entry of one value pool at once). validate_deep_anwendungshandbuch of the faulted AHB must not raise InvalidExpressionError; compared with the run on the AHB where each injected expression is replaced by 'Kann': NotImplementedError in one iff in the other, same discriminators in the same order, every non-faulted node's result equal (value pools with a faulted entry included: the entry counts as selectable), every faulted group/segment/free-text node reported optional with the reason as hint - the message of the InvalidExpressionError that evaluating the injected expression, with every package body written out in its place, raises on its own under the same content. A third of the cases validate the same faulted AHB a second time, in the same process, under a different content evaluation result. A fifth of the injected faults are invalid because of the evaluator's answer: a requirement constraint answered NEUTRAL next to a boolean operand in O / X. Expressions whose parts are written as packages are made binary first (explicit brackets): the grouping inside a run of one operator is unspecified and decides which offending pair is met first. Every case keeps one maus object of the faulted AHB and one of its 'Kann' twin; the second validation (other content) validates these same objects again, unless the first one was aborted by the documented NotImplementedError (an aborted run has blanked unexpected value-pool inputs of the nodes it happened to reach).",
    "note": "Trusted: gen.g_dom_invalid / ref.validity (the injected expressions are invalid by the structural criterion of C06), attrs equality of results. Faults are sampled, not enumerated exhaustively: subsets of up to 5 nodes per tree. Process configuration by shard (vlib/sut.py; recorded in replay files): plain / parse caches preheated beyond their size / warnings attributed to ahbicht raised as errors / logging fully enabled with every record rendered; one event loop per process or a new one per call; five process time zones; the hash seed is the shard number; namesakes of ahbicht's marshmallow schema classes are registered. Every registry of evaluators / providers / resolvers that the harness builds (sut.configure) also holds one of each kind that names no EDIFACT format and no format version; these must never be asked.",
    "technique": "property-based fault injection with a differential oracle (faulted AHB vs the same AHB with 'Kann' at the faulted nodes)",
}
LEVEL = "fault_enumeration"
RULE = (
    "AHB tree x content evaluation result x set of faulted nodes; non-trivial = at least two simultaneous faults at "
    "different levels that the run really visits, or a visited fault above a subtree with >= 3 nodes; distinct by case"
)
ASSUMPTIONS = [
    "all non-injected expressions are valid",
    "for a faulted free-text element 'reported optional' means a status starting with IS_OPTIONAL",
]
BOUNDS = {"quick": {"max_nodes": 30, "max_depth": 2}, "thorough": {"max_nodes": 80, "max_depth": 3}}
KANN = {"s": "Kann", "parts": [["Kann", None]]}


def _api():
    from ahbicht.validation.validation import validate_deep_anwendungshandbuch

    return validate_deep_anwendungshandbuch


def kann_tree(tree):
    """the tree with every faulted expression replaced by 'Kann'"""
    clone = copy.deepcopy(tree)
    for _, node, expr, index in vtree.expressions(clone):
        if expr.get("fault"):
            if index is None:
                node["expr"] = dict(KANN)
            else:
                node["pool"][index]["expr"] = dict(KANN)
    return clone


def _reason(expr_text, tree, cer):
    """the reason why the expression is invalid under this content: the message of the error its evaluation raises"""
    from ahbicht.expressions.ahb_expression_evaluation import evaluate_ahb_expression_tree
    from ahbicht.expressions.expression_resolver import parse_expression_including_unresolved_subexpressions

    vtree.setup(tree, cer)

    async def evaluate():
        parsed = await parse_expression_including_unresolved_subexpressions(expr_text, resolve_packages=True)
        return await evaluate_ahb_expression_tree(parsed)

    res = sut.call(evaluate)
    if res.ok or not res.is_a(sut.InvalidExpressionError):
        raise AssertionError(f"injected expression {expr_text!r} did not raise InvalidExpressionError on its own: {res!r}")
    return res.exc.error_message


def check(case):
    # one maus object per case: an application validates the AHB it holds again and again (after every edit, for every
    # message); validation must leave it as it is
    # (the 'Kann' twin likewise: ahbicht documents that it blanks an unexpected value of a value pool, so both objects
    # must have the same history)
    built = (vtree.build(case["tree"]), vtree.build(kann_tree(case["tree"])))
    info = check_once(case, case["cer"], built)
    if case.get("cer2") is not None:
        # the same AHB object validated again in the same process with other content: the reasons are those of *this* content
        if info["nie"]:
            # an aborted validation has blanked the unexpected values of those value pools it happened to reach before
            # the abort - not the same ones in the two objects; start again from fresh objects
            built = (vtree.build(case["tree"]), vtree.build(kann_tree(case["tree"])))
        second = check_once(case, case["cer2"], built)
        info["second_validation"] = True
        info["visited_faults"] += second["visited_faults"]
    return info


def check_once(case, cer, built=None):
    deep = _api()
    tree, soll = case["tree"], case["soll"]
    reference = kann_tree(tree)
    vtree.setup(tree, cer)
    faulted = sut.call(deep, built[0] if built is not None else vtree.build(tree), soll)
    vtree.setup(reference, cer)
    baseline = sut.call(deep, built[1] if built is not None else vtree.build(reference), soll)
    info = {"visited_faults": 0, "levels": set(), "big_subtree": False, "nie": False}
    if not faulted.ok and faulted.is_a(sut.InvalidExpressionError):
        fail("aborted", f"validation was aborted by the invalid expression: {faulted!r}")
    if not baseline.ok:
        if not baseline.is_a(NotImplementedError):
            # neither a result nor the documented NotImplementedError: validation aborts for an AHB of valid expressions
            # (with 'Kann' at the nodes that got an invalid expression) - nothing the differential oracle can build on
            fail("aborted", f"validation of the AHB with 'Kann' at the faulted nodes (all expressions valid) raised {baseline!r}; "
                 f"the faulted run gave {str(faulted)[:200]}")  # fmt: skip
        info["nie"] = True
        if faulted.ok or not faulted.is_a(NotImplementedError):
            fail("differs", f"with 'Kann' at the faulted nodes the run raises NotImplementedError, the faulted run gave {str(faulted)[:300]}")
        info["levels"] = []
        return info
    if not faulted.ok:
        fail("aborted", f"the faulted run raised {faulted!r} although the run with 'Kann' at the faulted nodes succeeds")
    got, want = faulted.value, baseline.value
    if [r.discriminator for r in got] != [r.discriminator for r in want]:
        fail("coverage", f"faulted run reports {[r.discriminator for r in got][:15]}, the 'Kann' run {[r.discriminator for r in want][:15]}")
    fault_nodes, fault_exprs = {}, {}
    for kind, node, expr, index in vtree.expressions(tree):
        if expr.get("fault") and index is None:
            fault_nodes[node["d"]] = kind
            fault_exprs[node["d"]] = expr
    subtree_sizes = _subtree_sizes(tree)
    for mine, theirs in zip(got, want):
        d = mine.discriminator
        if d in fault_nodes:
            info["visited_faults"] += 1
            info["levels"].add(fault_nodes[d])
            if subtree_sizes.get(d, 0) >= 3:
                info["big_subtree"] = True
            status = str(mine.validation_result.requirement_validation)
            if not status.startswith("IS_OPTIONAL"):
                fail("not-optional", f"faulted node {d} ({fault_nodes[d]}) is reported {status}, not optional")
            hint = mine.validation_result.hints
            if not (isinstance(hint, str) and hint.strip()):
                fail("no-reason", f"faulted node {d} carries no reason as hint: {hint!r}")
            # the reason is that of the expression with every package body written in its place
            expected_reason = _reason(fault_exprs[d].get("plain", fault_exprs[d]["s"]), tree, cer)
            if hint != expected_reason:
                fail("wrong-reason", f"faulted node {d} ({fault_exprs[d]['s']!r}, packages {tree['table']}) under rc={cer['rc']}: the "
                     f"hint is {hint!r} but the reason why the expression is invalid under this content is {expected_reason!r}")  # fmt: skip
        elif mine != theirs:
            fail("other-node-changed", f"node {d} is not faulted but its result differs: {mine.validation_result} vs with 'Kann': {theirs.validation_result}")
    pools = [node for kind, node, _ in vtree.nodes(tree) if kind == "vp" and any(e["expr"].get("fault") for e in node["pool"])]
    visited = {r.discriminator for r in got}
    for node in pools:
        if node["d"] in visited and len(node["pool"]) > 1:
            info["visited_faults"] += 1
            info["levels"].add("vp-entry")
    info["levels"] = sorted(info["levels"])
    info["whole_pool"] = any(node["d"] in visited and len(node["pool"]) > 1 and all(e["expr"].get("fault") for e in node["pool"]) for node in pools)
    return info


def _binary(ast):
    """the same expression with every n-ary operator node nested to the left: ((a X b) X c)"""
    if ref.is_atom(ast):
        return ast
    children = [_binary(child) for child in ast[1]]
    node = [ast[0], children[:2]]
    for child in children[2:]:
        node = [ast[0], [node, child]]
    return node


def _subtree_sizes(tree):
    sizes = {}

    def group(g):
        total = 0
        for sub in g["groups"]:
            total += 1 + group(sub)
        for seg in g["segs"]:
            sizes[seg["d"]] = len(seg["des"])
            total += 1 + len(seg["des"])
        sizes[g["d"]] = total
        return total

    for root in tree["groups"]:
        group(root)
    return sizes


def classify(case, info):
    labels = [f"visited-faults={min(info['visited_faults'], 4)}"]
    labels += [f"fault-at-{level}" for level in info["levels"]]
    if info["nie"]:
        labels.append("NotImplementedError")
    if info["big_subtree"]:
        labels.append("fault-above-big-subtree")
    if case.get("hidden_in_package"):
        labels.append("hidden-in-package")
    if case.get("several_packages"):
        labels.append("several-packages-in-one-invalid-expression")
    if case.get("later_part"):
        labels.append("fault-in-later-part")
    if info.get("second_validation"):
        labels.append("validated-twice-with-different-content")
    if info.get("whole_pool"):
        labels.append("all-entries-of-a-pool-faulted")
    nontrivial = (info["visited_faults"] >= 2 and len(info["levels"]) >= 2) or info["big_subtree"]
    return labels, nontrivial


def strategy(tier):
    bounds = BOUNDS[tier]

    @st.composite
    def build(draw):
        tree = draw(vtree.g_tree(max_nodes=bounds["max_nodes"], max_depth=bounds["max_depth"]))
        slots = vtree.expressions(tree)
        count = draw(st.integers(1, min(5, len(slots))))
        chosen = draw(st.lists(st.integers(0, len(slots) - 1), min_size=count, max_size=count, unique=True))
        # bias towards the upper levels so that faults are visited and have something below them
        chosen = sorted(set(chosen + [draw(st.integers(0, min(3, len(slots) - 1)))]))
        # every entry of one multi-entry pool at once (no valid entry left in it)
        pools = sorted({id(node): node for kind, node, _, index in slots if kind == "vp" and len(node["pool"]) > 1}.values(), key=lambda n: n["d"])
        if pools and draw(st.sampled_from(range(3))) == 0:
            victim = draw(st.sampled_from(pools))
            chosen = sorted(set(chosen) | {i for i, slot in enumerate(slots) if slot[1] is victim})
        hidden = later = several = False
        for position in chosen:
            kind, node, expr, index = slots[position]
            invalid = draw(gen.g_dom_invalid(max_atoms=4, pools=vtree.POOLS))
            text = gen.render(draw, invalid, redundant=False, top=False)
            style = draw(st.sampled_from(["plain", "plain", "later-part", "package", "neutral-answer", "packaged-parts"]))
            plain = None
            if style == "neutral-answer":
                # invalid because of what the evaluator answers: NEUTRAL is a documented outcome of a requirement constraint
                # evaluator, and a neutral operand next to a boolean one in O / X "has no useful result" (key 17 is
                # answered NEUTRAL, see below; nothing else uses it)
                other = draw(st.sampled_from(vtree.RC))
                pair = [f"[17]", f"[{other}]"]
                if draw(st.booleans()):
                    pair.reverse()
                written = (f"{draw(gen.indicator_text(gen.MODAL_WORDS + gen.PREFIX_WORDS))} {pair[0]} "
                           f"{draw(st.sampled_from(['O', 'X', 'o', '∨']))} {pair[1]} ")
            elif style == "package":
                key = f"{90 + len(tree['table'])}P"
                tree["table"][key] = text
                indicator = draw(gen.indicator_text(gen.MODAL_WORDS + gen.PREFIX_WORDS))
                written, plain = f"{indicator} [{key}] ", f"{indicator} ({text}) "
                hidden = True
            elif style == "packaged-parts":
                # several parts of the invalid expression (at any depth, next to each other or not) are written as
                # packages; the expression that is evaluated is the one with the bodies in their places (C10)
                # (operator nodes are made binary first: how a run of one operator is grouped is not specified, and which
                # of two offending pairs is reported first depends on it)
                invalid = _binary(invalid)
                paths = [path for path, node in ref.sites(invalid)
                         if not (path and ref.node_at(invalid, path[:-1])[0] == "then" and node[0] == "fc")]
                picked = []
                for path in draw(st.lists(st.sampled_from(paths), min_size=1, max_size=4, unique=True)):
                    if not any(path[: len(other)] == other or other[: len(path)] == path for other in picked):
                        picked.append(path)
                packaged = invalid
                for path in picked:
                    key = f"{90 + len(tree['table'])}P"
                    tree["table"][key] = ref.canonical(ref.node_at(invalid, path))
                    packaged = ref.replace_at(packaged, path, lambda _, key=key: ["pkg", key, None])
                indicator = draw(gen.indicator_text(gen.MODAL_WORDS + gen.PREFIX_WORDS))
                written = f"{indicator} {gen.render(draw, packaged, redundant=False, top=False)} "
                plain = f"{indicator} {ref.canonical(invalid)} "
                hidden = several = len(picked) >= 2 or several
            elif style == "later-part":
                valid = gen.render(draw, draw(gen.g_dom(max_atoms=3, mode="valid", pools=vtree.POOLS)), redundant=False, top=False)
                written = (f"{draw(gen.indicator_text(gen.MODAL_WORDS))} {valid} "
                           f"{draw(gen.indicator_text(gen.MODAL_WORDS))} {text} ")
                later = True
            else:
                written = f"{draw(gen.indicator_text(gen.MODAL_WORDS + gen.PREFIX_WORDS))}{draw(gen.ws())}{text} "
            new = {"s": written, "parts": [], "fault": True, "plain": plain or written}
            if index is None:
                node["expr"] = new
            else:
                node["pool"][index]["expr"] = new
        cer, cer2 = draw(vtree.g_cer()), (draw(vtree.g_cer()) if draw(st.sampled_from(range(3))) == 0 else None)
        for data in (cer, cer2):
            if data is not None:
                data["rc"]["17"] = "N"
        return {"tree": tree, "cer": cer, "soll": draw(st.booleans()), "hidden_in_package": hidden, "later_part": later, "cer2": cer2,
                "several_packages": several}

    return build()


def sample(case):
    return {"faulted": [(node["d"], expr["s"]) for _, node, expr, _ in vtree.expressions(case["tree"]) if expr.get("fault")],
            "rc": case["cer"]["rc"], "nodes": len(vtree.nodes(case["tree"]))}  # fmt: skip


STAGES = [
    Stage(name="faults", kind="hyp", check=check, classify=classify, strategy=strategy,
          budget={"quick": 100, "thorough": 800},
          floors={"fault-at-group": 0.2, "fault-at-seg": 0.1, "fault-at-ft": 0.05, "fault-at-vp-entry": 0.03,
                  "hidden-in-package": 0.1, "fault-in-later-part": 0.1, "several-packages-in-one-invalid-expression": 0.05, "all-entries-of-a-pool-faulted": 0.03},
          sample=sample),
]  # fmt: skip
