"""
Deep AHB trees for the validation properties (C13-C17): generator (G_tree), builder of maus objects, reference model.

Tree case (JSON):
    {"groups": [group, ...], "table": {package key: expression text}, "table_asts": {package key: ast}}
    group = {"d": str, "expr": expr, "groups": [...], "segs": [...]}
    seg   = {"d": str, "expr": expr, "des": [...]}
    de    = {"t": "ft", "d": str, "expr": expr, "inp": None | str}
          | {"t": "vp", "d": str, "pool": [{"q": str, "expr": expr}, ...], "inp": None | str}
    expr  = {"s": written AHB expression, "parts": [[indicator, ast | None], ...], "fault": bool (optional)}
The ASTs in `parts` have packages already expanded (they are what the reference model evaluates); "s" is what ahbicht
gets and may contain [nP] abbreviations.
"""

from hypothesis import strategies as st

from vlib import gen, ref, sut

# small pools made of the borders of the key ranges (1-499 / 2000-2499, 500-900, 901-999)
RC = ["1", "499", "2000", "2499"]
HINTS = ["500", "900"]
FCS = ["901", "999"]
POOLS = {"rc": RC, "hint": HINTS, "fc": FCS}
PACKAGES = ["1P", "7P"]
QUALIFIERS = ["A", "B", "C", "Z1", "9", "E01"]


class ModelNotImplemented(Exception):
    """the reference model's counterpart of the documented NotImplementedError (undetermined MUSS / prefix node)"""


# ------------------------------------------------------------------------------------------------------ generator


def _swap_in_packages(draw, ast, table_asts, one_in=5):
    """
    replace some rc atoms (one in `one_in`) by package atoms whose body is an rc-carrying expression; returns
    (written, expanded).  one_in=1 writes every requirement constraint as a package: several packages, at any depth
    """
    if not table_asts:
        return ast, ast
    if ref.is_atom(ast):
        if ast[0] == "rc" and draw(st.sampled_from(range(one_in))) == 0:
            key = draw(st.sampled_from(sorted(table_asts)))
            rep = draw(st.sampled_from([None, None, "0..1", "1..2"]))
            return ["pkg", key, rep], table_asts[key]
        return ast, ast
    written, expanded = [], []
    for child in ast[1]:
        w, e = _swap_in_packages(draw, child, table_asts, one_in)
        written.append(w)
        expanded.append(e)
    return [ast[0], written], [ast[0], expanded]


@st.composite
def node_expression(draw, table_asts=None, max_parts=3, size=4, soll_bias=False, prefix_ok=True, fc_dense=False):
    """a valid AHB expression of a C09 form over the small key pools"""
    words = gen.MODAL_WORDS + (["S", "Soll", "soll"] * 2 if soll_bias else [])
    form = draw(st.sampled_from(range(12)))
    shape = []
    if form == 0:
        shape = [[draw(gen.indicator_text(words + (gen.PREFIX_WORDS if prefix_ok else []))), False]]
    elif form in (1, 2) and prefix_ok:
        shape = [[draw(gen.indicator_text(gen.PREFIX_WORDS)), True]]
    else:
        count = draw(st.sampled_from([1, 1, 1, 2, 2, 3][: 3 + max_parts]))
        shape = [[draw(gen.indicator_text(words)), True] for _ in range(min(count, max_parts))]
        if draw(st.sampled_from(range(4))) == 0:
            shape.append([draw(gen.indicator_text(words)), False])
    parts, rendered = [], []
    one_in = draw(st.sampled_from([5, 5, 5, 1]))
    for indicator, has_cond in shape:
        expanded, cond = None, None
        if has_cond:
            ast = draw(gen.g_dom(max_atoms=size, mode="valid", pools=POOLS, fc_dense=fc_dense))
            written, expanded = _swap_in_packages(draw, ast, table_asts or {}, one_in)
            cond = gen.render(draw, written, redundant=False, spaces=draw(st.booleans()), top=False)
        parts.append([indicator, expanded])
        rendered.append((indicator, cond))
    return {"s": gen.render_ahb(draw, rendered), "parts": parts}


@st.composite
def package_table(draw):
    table, asts = {}, {}
    for key in PACKAGES:
        body = draw(gen.g_dom(max_atoms=3, mode="valid", pools=POOLS, neutral_root=False))
        asts[key] = body
        table[key] = ref.canonical(body)
        if draw(st.sampled_from(range(4))) == 0:
            # a time condition inside the package: the expression that uses the package does not spell "UB" out, yet
            # the resolved tree must not contain a time condition any more ([UB1] -> [932], [UB2] -> [934])
            time_key, fc_key = draw(st.sampled_from([("UB1", "932"), ("UB2", "934")]))
            asts[key] = ["and", [body, ["fc", fc_key]]]
            table[key] = f"({ref.canonical(body)}) U [{time_key}]"
    return table, asts


def meaning(entry):
    """the meaning text of a value pool entry {"q", "expr"[, "m"]}; maus only demands a str, the empty one included"""
    return entry.get("m", "meaning of " + entry["q"])


def with_meaning(draw, entry):
    """sometimes gives the entry an unusual (but legal) meaning text"""
    text = draw(st.sampled_from([None, None, None, "", " ", "0", entry["q"]]))
    if text is not None:
        entry["m"] = text
    return entry


@st.composite
def g_tree(draw, max_nodes=40, max_depth=2, soll_bias=False, min_freetext=0, expr=None):
    """deep AHB: 1-3 root groups, nested groups, segments, free-text / value-pool data elements"""
    table, table_asts = draw(package_table())
    expression = (lambda: expr(table_asts)) if expr else (lambda: node_expression(table_asts, soll_bias=soll_bias))
    counter = [0]
    budget = [max_nodes]

    def name(prefix, parent):
        counter[0] += 1
        return f"{parent}/{prefix}{counter[0]}" if parent else f"{prefix}{counter[0]}"

    def data_element(parent):
        budget[0] -= 1
        if draw(st.sampled_from(range(5))) < 3:
            return {"t": "ft", "d": name("D", parent), "expr": draw(expression()), "vt": draw(st.sampled_from([None, None, "TEXT", "DATETIME"])),
                    "inp": draw(st.sampled_from([None, "", "x", "yy", "0", "2022-01-01T00:00:00+01:00", " x\n", " ", "100% {0}"]))}  # fmt: skip
        qualifiers = draw(st.lists(st.sampled_from(QUALIFIERS), min_size=1, max_size=5, unique=True))
        pool = [with_meaning(draw, {"q": q, "expr": draw(expression())}) for q in qualifiers]
        return {"t": "vp", "d": name("V", parent), "pool": pool,
                "inp": draw(st.sampled_from([None, "", "Q", draw(st.sampled_from(gen.FOREIGN_TEXTS))] + qualifiers + QUALIFIERS[:2]))}  # fmt: skip

    def segment(parent):
        budget[0] -= 1
        own = name("S", parent)
        count = draw(st.integers(0, 4)) if budget[0] > 0 else 0
        return {"d": own, "expr": draw(expression()), "des": [data_element(own) for _ in range(count) if budget[0] > 0]}

    def group(parent, depth):
        budget[0] -= 1
        own = name("G", parent)
        sub_count = draw(st.integers(0, 3)) if depth > 0 and budget[0] > 0 else 0
        groups = [group(own, depth - 1) for _ in range(sub_count) if budget[0] > 0]
        seg_count = draw(st.integers(0, 3)) if budget[0] > 0 else 0
        segs = [segment(own) for _ in range(seg_count) if budget[0] > 0]
        return {"d": own, "expr": draw(expression()), "groups": groups, "segs": segs}

    roots = [group("", draw(st.integers(0, max_depth))) for _ in range(draw(st.integers(1, 3)))]
    tree = {"groups": roots, "table": table}
    while len([n for n in nodes(tree) if n[0] == "ft"]) < min_freetext:
        # make sure that there are enough free-text elements (C15): add a segment with free texts to the first group
        seg = {"d": name("S", roots[0]["d"]), "expr": {"s": "Muss", "parts": [["Muss", None]]}, "des": []}
        for _ in range(min_freetext):
            seg["des"].append({"t": "ft", "d": name("D", seg["d"]), "expr": draw(expression()),
                               "inp": draw(st.sampled_from(["x", "yy", "zzz", ""]))})  # fmt: skip
        roots[0]["segs"].append(seg)
    return tree


@st.composite
def g_cer(draw, weights=None):
    weights = weights or draw(st.sampled_from(["FUK", "FFFU", "FFUK", "F", "FFFFUK"]))
    return {
        "rc": {k: draw(st.sampled_from(weights)) for k in RC},
        "fc": {**{k: draw(st.booleans()) for k in FCS}, "932": draw(st.booleans()), "934": draw(st.booleans())},
        "hints": draw(gen.hint_texts(HINTS)),
    }


# -------------------------------------------------------------------------------------------------------- helpers


def nodes(tree):
    """all nodes in document order as (kind, node, depth) with kind in group / seg / ft / vp"""
    out = []

    def walk_group(group, depth):
        out.append(("group", group, depth))
        for sub in group["groups"]:
            walk_group(sub, depth + 1)
        for seg in group["segs"]:
            out.append(("seg", seg, depth + 1))
            for element in seg["des"]:
                out.append((element["t"], element, depth + 2))

    for root in tree["groups"]:
        walk_group(root, 0)
    return out


def expressions(tree):
    """all expr dicts of a tree with an address: (kind, node, expr, pool index | None)"""
    out = []
    for kind, node, _ in nodes(tree):
        if kind == "vp":
            for index, entry in enumerate(node["pool"]):
                out.append((kind, node, entry["expr"], index))
        else:
            out.append((kind, node, node["expr"], None))
    return out


def setup(tree, cer):
    sut.setup_hardcoded(sut.make_cer(rc=cer["rc"], fc=cer["fc"], hints=cer["hints"], packages=tree.get("table") or {}))


def build(tree):
    """the maus DeepAnwendungshandbuch for a tree case (fresh objects on every call)"""
    from maus.models.anwendungshandbuch import AhbMetaInformation, DeepAnwendungshandbuch

    return DeepAnwendungshandbuch(
        meta=AhbMetaInformation(pruefidentifikator="12345"), lines=[build_group(g) for g in tree["groups"]]
    )


def build_group(group):
    from maus.models.edifact_components import SegmentGroup

    return SegmentGroup(
        discriminator=group["d"],
        ahb_expression=group["expr"]["s"],
        ahb_line_index=group.get("li"),
        segment_groups=[build_group(g) for g in group["groups"]],
        segments=[build_segment(s) for s in group["segs"]],
    )


def build_segment(seg):
    from maus.models.edifact_components import Segment

    return Segment(discriminator=seg["d"], ahb_expression=seg["expr"]["s"], ahb_line_index=seg.get("li"),
                   data_elements=[build_element(e) for e in seg["des"]])  # fmt: skip


def build_element(element):
    from maus.models.edifact_components import DataElementFreeText, DataElementValuePool, ValuePoolEntry

    if element["t"] == "ft":
        extra = {}
        if element.get("vt") is not None:
            from maus.models.edifact_components import DataElementDataType

            extra["value_type"] = DataElementDataType(element["vt"])  # maus' default is TEXT
        return DataElementFreeText(
            discriminator=disc(element), ahb_expression=element["expr"]["s"], entered_input=element["inp"], data_element_id="1234",
            **extra
        )
    return DataElementValuePool(
        discriminator=disc(element),
        data_element_id="0001",
        entered_input=element["inp"],
        value_pool=[ValuePoolEntry(qualifier=e["q"], meaning=meaning(e), ahb_expression=e["expr"]["s"]) for e in element["pool"]],
    )


def anonymise(draw, tree):
    """gives some data elements no discriminator (None) or one shared discriminator; in place"""
    for kind, node, _ in nodes(tree):
        if kind in ("ft", "vp"):
            choice = draw(st.sampled_from(range(6)))
            if choice == 0:
                node["disc"] = None
            elif choice == 1:
                node["disc"] = "same"
    return tree


def line_indexes(draw, tree):
    """
    maus' optional ahb_line_index of groups and segments: absent, or numbers that need not increase along the document
    (a group added by hand, lines merged from two sources); in place.  The order of the results is the document order.
    """
    for kind, node, _ in nodes(tree):
        if kind in ("group", "seg"):
            choice = draw(st.sampled_from([None, None, 0, 3, 7, 40, 41, 120]))
            if choice is not None:
                node["li"] = choice
    return tree


def disc(element):
    """
    The discriminator a data element is built with: its unique path "d" unless the case overrides it with "disc" -
    maus allows None ("the data element was not found in the MIG") and does not demand uniqueness.
    """
    return element["disc"] if "disc" in element else element["d"]


class Misaligned(Exception):
    """the result list of a validation does not follow the document order of the tree"""


def align(tree, results):
    """
    {path "d" of a node: its row} for the result list of validate_deep_anwendungshandbuch, matched *by position*:
    a group, then its sub-groups, then its segments each followed by all of its data elements; nothing below a
    forbidden group or segment.  Works with data elements whose discriminators are None or not unique.
    """
    rows, position = {}, [0]

    def take(expected, path):
        index = position[0]
        if index >= len(results):
            raise Misaligned(f"the result list ends after {index} rows, before {path}")
        if results[index].discriminator != expected:
            raise Misaligned(f"row {index} has discriminator {results[index].discriminator!r}, expected {expected!r} (node {path})")
        rows[path] = results[index]
        position[0] += 1
        return str(results[index].validation_result.requirement_validation)

    def walk(group):
        if take(group["d"], group["d"]) == "IS_FORBIDDEN":
            return
        for sub in group["groups"]:
            walk(sub)
        for seg in group["segs"]:
            if take(seg["d"], seg["d"]) == "IS_FORBIDDEN":
                continue
            for element in seg["des"]:
                take(disc(element), element["d"])

    for root in tree["groups"]:
        walk(root)
    if position[0] != len(results):
        raise Misaligned(f"{len(results) - position[0]} surplus rows after the last node, starting with {results[position[0]].discriminator!r}")
    return rows


def result_rows(results):
    """[(discriminator, requirement_validation as str)] of a list of ValidationResultInContext"""
    return [(r.discriminator, str(r.validation_result.requirement_validation)) for r in results]


# ------------------------------------------------------------------------------------------------ reference model


def own_status(expr, assignment, soll_is_required):
    """documented mapping indicator x outcome for the selected part"""
    parts = expr["parts"]
    index = ref.select_part(parts, assignment)
    indicator = ref.normalise_indicator(parts[index][0])
    fulfilled = ref.part_fulfilled(parts[index][1], assignment)
    if indicator == "SOLL":
        indicator = "MUSS" if soll_is_required else "KANN"
    if fulfilled is False:
        return "IS_FORBIDDEN"
    if fulfilled is None:
        if indicator in ("MUSS", "X", "O", "U"):
            raise ModelNotImplemented()
        return "IS_OPTIONAL"
    return "IS_REQUIRED" if indicator in ("MUSS", "X", "O", "U") else "IS_OPTIONAL"


def combine(parent, child):
    """documented table: parent beats child"""
    if parent is None or parent == "IS_REQUIRED":
        return child
    if parent == "IS_OPTIONAL":
        return "IS_OPTIONAL" if child == "IS_REQUIRED" else child
    raise ValueError(parent)


def offered(pool, assignment):
    """
    qualifiers whose own expression is fulfilled (a single-entry pool always offers its entry), in pool order.
    A qualifier that occurs more than once (maus allows that, e.g. after DataElementValuePool.replace_value_pool) is
    offered if one of its entries is fulfilled and is listed once.
    """
    if len(pool) == 1:
        return [pool[0]["q"]]
    out = []
    for entry in pool:
        expr = entry["expr"]
        if expr.get("fault"):
            fulfilled = True  # C16: an invalid entry is treated as selectable
        else:
            index = ref.select_part(expr["parts"], assignment)
            fulfilled = ref.part_fulfilled(expr["parts"][index][1], assignment) is True
        if fulfilled and entry["q"] not in out:
            out.append(entry["q"])
    return out


def pool_status(element, assignment):
    """C17: forbidden if nothing is offered, else FILLED iff the entered value is offered"""
    values = offered(element["pool"], assignment)
    if not values:
        return "IS_FORBIDDEN"
    if element["inp"] in values:
        return "IS_REQUIRED_AND_FILLED"
    return "IS_REQUIRED_AND_EMPTY"


def model(tree, assignment, soll_is_required, roots=None, parent=None):
    """
    expected [(discriminator, status | None)] in document order; status None = not constrained here.
    Faulted nodes (expr["fault"]) are optional (C16).  Raises ModelNotImplemented for an undetermined MUSS/prefix node.
    """
    out = []

    def status_of(expr, parent):
        if expr.get("fault"):
            return "IS_OPTIONAL"
        return combine(parent, own_status(expr, assignment, soll_is_required))

    def walk_group(group, parent):
        status = status_of(group["expr"], parent)
        out.append((group["d"], status))
        if status == "IS_FORBIDDEN":
            return
        for sub in group["groups"]:
            walk_group(sub, status)
        for seg in group["segs"]:
            walk_segment(seg, status)

    def walk_segment(seg, parent):
        status = status_of(seg["expr"], parent)
        out.append((seg["d"], status))
        if status == "IS_FORBIDDEN":
            return
        for element in seg["des"]:
            if element["t"] == "ft":
                own = status_of(element["expr"], status)
                if not element["expr"].get("fault"):
                    own += "_AND_FILLED" if element["inp"] else "_AND_EMPTY"
                out.append((disc(element), own))
            else:
                out.append((disc(element), None))  # value pools: judged by C17, here they only have to appear

    for root in roots if roots is not None else tree["groups"]:
        if parent == "IS_FORBIDDEN":
            out.append((root["d"], "IS_FORBIDDEN"))  # a forbidden parent forbids the node; nothing below is reported
        elif "groups" in root:
            walk_group(root, parent)
        else:
            walk_segment(root, parent)
    return out
