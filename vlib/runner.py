"""
Runner: tiers, seeding, sharding over processes, evidence, VIOLATION / KNOWN-FINDING lines, exit codes.

  python -m vlib.runner <ID> --tier quick|thorough [--replay FILE] [--shards N] [--scale X]

A property module (vlib/props/cXX.py) declares STAGES: a list of Stage objects.  A stage is either
  * kind "hyp":     a Hypothesis strategy producing JSON-serialisable cases,
  * kind "enum":    a deterministic enumeration of cases (complete finite domains), sharded by index,
  * kind "machine": a Hypothesis RuleBasedStateMachine whose executed rule sequence (trace) is the case.
Each stage has check(case) -> info (raises Violation) and classify(case, info) -> (labels, nontrivial).
"""

import argparse
import hashlib
import importlib
import json
import os
import subprocess
import sys
import tempfile
import time
import traceback
from collections import Counter
from dataclasses import dataclass, field
from typing import Any, Callable, Dict, Iterable, List, Optional, Tuple

ROOT = os.path.dirname(os.path.dirname(os.path.abspath(__file__)))
EVIDENCE_DIR = os.path.join(ROOT, "evidence")
REPLAY_DIR = os.path.join(ROOT, "replays")
if os.environ.get("VERIF_SELFTEST") == "1":
    # runs against deliberately broken scratch copies must not overwrite the evidence of the real tree
    EVIDENCE_DIR = os.path.join(ROOT, ".work", "selftest-evidence")
    REPLAY_DIR = os.path.join(ROOT, ".work", "selftest-replays")
CORPUS_DIR = os.path.join(ROOT, "corpus")
KNOWN_FINDINGS = os.path.join(ROOT, "known_findings.json")
MAX_SHARDS = 16


from vlib.core import Stage, StopStage as _StopStage, Violation, sha  # noqa: E402


def load_prop(pid: str):
    module = importlib.import_module(f"vlib.props.{pid.lower()}")
    from vlib import sut

    sut.trace_logging()
    return module


# ------------------------------------------------------------------------------------------------- worker


class Recorder:
    """per-stage accounting inside one worker"""

    def __init__(self, stage: Stage, tier: str, deadline: Optional[float]):
        self.stage = stage
        self.tier = tier
        self.deadline = deadline
        self.evaluations = 0
        self.labels: Counter = Counter()
        self.nontrivial: set = set()
        self.bulk_nontrivial = 0
        self.samples: list = []
        self.failures: list = []  # dicts
        self.best_failure = None
        self.after_failure = 0
        self.stopped = None

    def tick(self, cost=1):
        """budget checks; called before every case (and by state machines before every step)"""
        if self.deadline is not None and time.monotonic() > self.deadline:
            self.stopped = "wall-clock budget reached"
            raise _StopStage()
        if self.best_failure is not None:
            self.after_failure += cost
            if self.after_failure > self.stage.shrink_budget.get(self.tier, 400):
                self.stopped = "shrink budget reached"
                raise _StopStage()

    def note_failure(self, case, violation):
        shown_case, shown_stage = case, self.stage.name
        if isinstance(violation.details, dict) and "replay_case" in violation.details:
            # bulk cases (a whole range of a finite domain) name the single failing element themselves
            shown_case = violation.details["replay_case"]
            shown_stage = violation.details.get("replay_stage", self.stage.name)
        size = len(json.dumps(shown_case, ensure_ascii=False, default=str))
        if self.best_failure is None or size <= self.best_failure[0]:
            self.best_failure = (size, shown_case, violation.clause, violation.message, shown_stage)

    def note_success(self, case, info):
        """accounting for a case that held; only the generation phase counts as coverage"""
        stage = self.stage
        if self.best_failure is not None:
            return
        labels, nontrivial = stage.classify(case, info)
        for label in labels:
            self.labels[label] += 1
        units = info.get("_units") if isinstance(info, dict) else None
        bulk = info.get("_bulk") if isinstance(info, dict) else None
        if bulk is not None:
            # a case that enumerated a whole range of pairwise different elements itself
            self.evaluations += bulk["evaluations"]
            self.bulk_nontrivial += bulk["nontrivial"]
            self.labels["generated-cases"] += 1
            for sample in bulk.get("samples", []):
                if len(self.samples) < 4:
                    self.samples.append(sample)
        elif units is not None:
            # one generated case covers several (input, assignment/schedule/...) units
            self.evaluations += len(units)
            self.labels["generated-cases"] += 1
            fresh = False
            for unit_key, unit_nontrivial in units:
                if unit_nontrivial:
                    key = sha(unit_key)[:20]
                    if key not in self.nontrivial:
                        self.nontrivial.add(key)
                        fresh = True
            if fresh and len(self.samples) < 4:
                self.samples.append(stage.sample(case) if stage.sample else case)
        else:
            self.evaluations += 1
            if nontrivial:
                key = sha(stage.key(case) if stage.key else case)[:20]
                if key not in self.nontrivial:
                    self.nontrivial.add(key)
                    if len(self.samples) < 4:
                        self.samples.append(stage.sample(case) if stage.sample else case)

    def run_case(self, case):
        """executes one case with accounting; re-raises Violation"""
        self.tick()
        try:
            info = self.stage.check(case)
        except Violation as violation:
            self.note_failure(case, violation)
            raise
        self.note_success(case, info)
        return info

    def take_failure(self):
        if self.best_failure is not None:
            _, case, clause, message, stage_name = self.best_failure
            self.failures.append({"stage": stage_name, "case": case, "clause": clause, "message": message,
                                  "shard": int(os.environ.get("VERIF_SHARD", "0") or 0)})  # fmt: skip
            self.best_failure = None
            self.after_failure = 0

    def result(self):
        return {
            "stage": self.stage.name,
            "evaluations": self.evaluations,
            "labels": dict(self.labels),
            "nontrivial": sorted(self.nontrivial),
            "bulk_nontrivial": self.bulk_nontrivial,
            "samples": self.samples,
            "failures": self.failures,
            "stopped": self.stopped,
        }


def _hyp_settings(n, steps=None):
    from hypothesis import HealthCheck, Phase, Verbosity, settings

    kwargs = dict(
        max_examples=n,
        database=None,
        deadline=None,
        derandomize=False,
        report_multiple_bugs=False,
        suppress_health_check=list(HealthCheck),
        phases=[Phase.explicit, Phase.generate, Phase.shrink],
        verbosity=Verbosity.quiet,
    )
    if steps is not None:
        kwargs["stateful_step_count"] = steps
    return settings(**kwargs)


def run_stage_in_worker(stage: Stage, tier: str, seed: int, shard: int, nshards: int, scale: float, deadline):
    import hypothesis
    import hypothesis.errors

    rec = Recorder(stage, tier, deadline)
    hyp_seed = seed * 1000 + shard
    if stage.kind == "enum":
        try:
            for case in stage.enumerate(tier, shard, nshards, seed):
                try:
                    rec.run_case(case)
                except Violation:
                    rec.take_failure()
                    if len(rec.failures) >= 10:
                        rec.stopped = "10 failures collected"
                        break
        except _StopStage:
            pass
    elif stage.kind == "hyp":
        n = max(1, int(stage.budget.get(tier, 100) * scale))
        strategy = stage.strategy(tier)

        @hypothesis.seed(hyp_seed)
        @_hyp_settings(n)
        @hypothesis.given(strategy)
        def test(case):
            rec.run_case(case)

        try:
            test()
        except Violation:
            rec.take_failure()
        except _StopStage:
            rec.take_failure()
        except hypothesis.errors.Flaky:
            # a violation that did occur but was not reproduced on re-execution (behaviour depends on process state,
            # e.g. object addresses): it is reported, not swallowed as a harness problem
            if rec.best_failure is None:
                raise
            rec.best_failure = rec.best_failure[:3] + (rec.best_failure[3] + " [not reproduced on immediate re-execution]",) + rec.best_failure[4:]
            rec.take_failure()
    elif stage.kind == "machine":
        from hypothesis.stateful import run_state_machine_as_test

        n = max(1, int(stage.budget.get(tier, 50) * scale))
        machine_cls = stage.machine(tier, rec)
        try:
            run_state_machine_as_test(
                hypothesis.seed(hyp_seed)(machine_cls), settings=_hyp_settings(n, stage.steps.get(tier, 30))
            )
        except Violation:
            rec.take_failure()
        except _StopStage:
            rec.take_failure()
        except hypothesis.errors.Flaky:
            if rec.best_failure is None:
                raise
            rec.best_failure = rec.best_failure[:3] + (rec.best_failure[3] + " [not reproduced on immediate re-execution]",) + rec.best_failure[4:]
            rec.take_failure()
    else:
        raise ValueError(stage.kind)
    return rec.result()


def worker_main(args):
    out = {"stages": [], "error": None, "corpus": []}
    os.environ["VERIF_SHARD"] = str(args.shard)  # read by vlib.sut at import time (logging on/off, cache preheating)
    try:
        prop = load_prop(args.pid)
        stages = {s.name: s for s in prop.STAGES}
        deadline = None
        if args.wall:
            deadline = time.monotonic() + args.wall
        os.environ["VERIF_SHARD"] = str(args.shard)
        if args.shard < 4:
            # shard k replays the corpus entries recorded under environment k (mod 4): plain, caches preheated,
            # warnings as errors, logging at DEBUG (see vlib/sut.py); with fewer than 4 shards the rest stays with shard 0
            out["corpus"] = replay_corpus(prop, args.shard, min(args.nshards, 4))
        for stage in prop.STAGES:
            if args.tier not in stage.tiers:
                continue
            if args.only_stage and stage.name != args.only_stage:
                continue
            out["stages"].append(
                run_stage_in_worker(stage, args.tier, args.seed, args.shard, args.nshards, args.scale, deadline)
            )
        del stages
    except BaseException:  # pylint:disable=broad-except
        out["error"] = traceback.format_exc()
    with open(args.out, "w", encoding="utf-8") as handle:
        json.dump(out, handle, ensure_ascii=False, default=str)
    return 0


def replay_corpus(prop, shard=0, nshards=1):
    """re-execute the committed regression cases (shrunk reproducers, sentinels); returns failures"""
    results = []
    directory = os.path.join(CORPUS_DIR, prop.ID)
    if not os.path.isdir(directory):
        return results
    stages = {s.name: s for s in prop.STAGES}
    for name in sorted(os.listdir(directory)):
        if not name.endswith(".json"):
            continue
        with open(os.path.join(directory, name), encoding="utf-8") as handle:
            entry = json.load(handle)
        wanted = entry.get("shard", 0) % 4
        if (wanted if wanted < nshards else 0) != shard:
            continue
        stage = stages[entry["stage"]]
        record = {"file": f"corpus/{prop.ID}/{name}", "stage": stage.name, "case": entry["case"], "clause": None,
                  "shard": shard}  # fmt: skip
        try:
            stage.check(entry["case"])
        except Violation as violation:
            record["clause"] = violation.clause
            record["message"] = violation.message
        results.append(record)
    return results


# ------------------------------------------------------------------------------------------------- parent


def load_known():
    if not os.path.exists(KNOWN_FINDINGS):
        return []
    with open(KNOWN_FINDINGS, encoding="utf-8") as handle:
        return json.load(handle).get("findings", [])


def signature_of(prop, failure) -> str:
    func = getattr(prop, "signature", None)
    if func is not None:
        return func(failure["stage"], failure["case"], failure["clause"])
    return f"{failure['stage']}:{failure['clause']}"


def write_evidence(pid, tier, seed, level, coverage, assumptions, wall, violations):
    os.makedirs(EVIDENCE_DIR, exist_ok=True)
    doc = {
        "property_id": pid,
        "tier": tier,
        "seed": seed,
        "level": level,
        "coverage": coverage,
        "assumptions": assumptions,
        "wall_s": round(wall, 3),
        "violations": violations,
    }
    path = os.path.join(EVIDENCE_DIR, f"{pid}.json")
    tmp = path + ".tmp"
    with open(tmp, "w", encoding="utf-8") as handle:
        json.dump(doc, handle, ensure_ascii=False, indent=1, default=str)
        handle.write("\n")
    os.replace(tmp, path)
    return path


def parent_main(args):
    t0 = time.monotonic()
    pid = args.pid.upper()
    tier = args.tier
    seed = args.seed
    try:
        prop = load_prop(pid)
    except Exception:  # pylint:disable=broad-except
        traceback.print_exc()
        print(f"HARNESS-ERROR: cannot load property module for {pid}")
        return 2
    nshards = args.shards or getattr(prop, "SHARDS", {}).get(tier, MAX_SHARDS)
    nshards = max(1, min(nshards, MAX_SHARDS))
    wall = args.wall if args.wall is not None else getattr(prop, "WALL", {}).get(tier)

    workdir = tempfile.mkdtemp(prefix=f"verif-{pid}-")
    procs = []
    env = dict(os.environ)
    for shard in range(nshards):
        # str / enum hashes - hence the iteration order of sets - differ between processes of an application; every
        # shard gets its own, fixed hash seed (recorded with the shard number in replay files and restored on replay)
        env["PYTHONHASHSEED"] = str(shard)
        out = os.path.join(workdir, f"shard{shard}.json")
        log = open(os.path.join(workdir, f"shard{shard}.log"), "w", encoding="utf-8")  # pylint:disable=consider-using-with
        cmd = [
            sys.executable, "-m", "vlib.runner", pid, "--worker", "--tier", tier, "--seed", str(seed),
            "--shard", str(shard), "--nshards", str(nshards), "--out", out, "--scale", str(args.scale),
        ]  # fmt: skip
        if wall:
            cmd += ["--wall", str(wall)]
        if args.only_stage:
            cmd += ["--only-stage", args.only_stage]
        procs.append((shard, out, log, subprocess.Popen(cmd, cwd=ROOT, env=env, stdout=log, stderr=subprocess.STDOUT)))

    harness_errors = []
    results = []
    # hard limit: code under test that does not terminate (or a hopelessly overloaded machine) must not hang the check;
    # this is a harness error (exit 2, nothing is concluded about the property), never a violation
    hard_limit = float(os.environ.get("VERIF_HARD_LIMIT_S", "2400" if tier == "quick" else "28800"))
    started = time.monotonic()
    for shard, out, log, proc in procs:
        try:
            code = proc.wait(timeout=max(1.0, hard_limit - (time.monotonic() - started)))
        except subprocess.TimeoutExpired:
            proc.kill()
            proc.wait()
            code = f"KILLED after the hard limit of {hard_limit:.0f} s (VERIF_HARD_LIMIT_S)"
        log.close()
        if code != 0 or not os.path.exists(out):
            with open(log.name, encoding="utf-8", errors="replace") as handle:
                tail = handle.read()[-3000:]
            harness_errors.append(f"shard {shard} exited with {code}:\n{tail}")
            continue
        with open(out, encoding="utf-8") as handle:
            res = json.load(handle)
        if res.get("error"):
            harness_errors.append(f"shard {shard}:\n{res['error']}")
        results.append(res)

    # ---- merge
    per_stage: Dict[str, dict] = {}
    failures = []
    corpus = []
    for res in results:
        corpus.extend(res.get("corpus", []))
        for st in res["stages"]:
            agg = per_stage.setdefault(
                st["stage"],
                {"evaluations": 0, "labels": Counter(), "nontrivial": set(), "samples": [], "stopped": [], "bulk": 0},
            )
            agg["bulk"] += st.get("bulk_nontrivial", 0)
            agg["evaluations"] += st["evaluations"]
            agg["labels"].update(st["labels"])
            agg["nontrivial"].update(st["nontrivial"])
            for sample in st["samples"]:
                if len(agg["samples"]) < 4:
                    agg["samples"].append(sample)
            if st["stopped"]:
                agg["stopped"].append(st["stopped"])
            failures.extend(st["failures"])
    for rec in corpus:
        if rec["clause"] is not None:
            failures.append({"stage": rec["stage"], "case": rec["case"], "clause": rec["clause"],
                             "message": rec.get("message", "") + f" (regression case {rec['file']})",
                             "shard": rec.get("shard", 0)})  # fmt: skip

    stage_defs = {s.name: s for s in prop.STAGES}
    evaluations = sum(a["evaluations"] for a in per_stage.values())
    distinct = sum(len(a["nontrivial"]) + a["bulk"] for a in per_stage.values())
    samples = []
    for name, agg in per_stage.items():
        for sample in agg["samples"][:3]:
            samples.append({"stage": name, "case": sample})
    stages_cov = {}
    degenerate = []
    for name, agg in per_stage.items():
        labels = dict(agg["labels"])
        labels.pop("nontrivial", None)
        stages_cov[name] = {
            "kind": stage_defs[name].kind,
            "evaluations": agg["evaluations"],
            "distinct_nontrivial": len(agg["nontrivial"]) + agg["bulk"],
            "labels": dict(sorted(labels.items())),
            "exhaustive": bool(stage_defs[name].exhaustive),
        }
        if agg["stopped"]:
            stages_cov[name]["stopped_early"] = sorted(set(agg["stopped"]))
        if agg["evaluations"] and not failures:
            for label, floor in stage_defs[name].floors.items():
                share = agg["labels"].get(label, 0) / (agg["labels"].get("generated-cases") or agg["evaluations"])
                if share < floor:
                    degenerate.append(f"stage {name}: label '{label}' share {share:.3f} < floor {floor}")

    # ---- findings
    known = [k for k in load_known() if k.get("property") == pid]
    known_open = [k for k in known if k.get("status") == "known"]
    for entry in known_open:
        print(f"KNOWN-FINDING: property={pid} {entry.get('what', '')}")
    violations = []
    seen = set()
    suppressed = 0
    for failure in failures:
        sig = signature_of(prop, failure)
        if any(sig == k.get("signature") for k in known_open):
            suppressed += 1
            continue
        if sig in seen:
            continue
        seen.add(sig)
        violations.append((sig, failure))

    os.makedirs(REPLAY_DIR, exist_ok=True)
    for sig, failure in violations:
        doc = {"property": pid, "stage": failure["stage"], "case": failure["case"], "clause": failure["clause"],
               "message": failure["message"], "signature": sig, "tier": tier, "seed": seed,
               "shard": failure.get("shard", 0)}  # fmt: skip
        path = os.path.join(REPLAY_DIR, f"{pid}-{sha(doc['case'])[:12]}.json")
        with open(path, "w", encoding="utf-8") as handle:
            json.dump(doc, handle, ensure_ascii=False, indent=1, default=str)
        print(f"VIOLATION property={pid} replay={path}")
        print(f"  clause={failure['clause']} stage={failure['stage']}: {failure['message'][:600]}")

    all_exhaustive = bool(per_stage) and all(stage_defs[n].exhaustive for n in per_stage)
    coverage = {
        "evaluations": evaluations,
        "distinct_nontrivial": distinct,
        "rule": getattr(prop, "RULE", ""),
        "samples": samples,
        "exhaustive": all_exhaustive and bool(getattr(prop, "EXHAUSTIVE", False)),
        "exhaustive_slices": [n for n in per_stage if stage_defs[n].exhaustive],
        "stages": stages_cov,
        "shards": nshards,
        "corpus_cases_replayed": len(corpus),
        "known_findings_suppressed": suppressed,
        "bounds": getattr(prop, "BOUNDS", {}).get(tier, {}),
    }
    extra = getattr(prop, "coverage_extra", None)
    if extra:
        coverage.update(extra(tier))
    wall_s = time.monotonic() - t0
    write_evidence(pid, tier, seed, getattr(prop, "LEVEL", "exploration"), coverage,
                   list(getattr(prop, "ASSUMPTIONS", [])), wall_s, len(violations))  # fmt: skip

    try:
        for name in os.listdir(workdir):
            os.unlink(os.path.join(workdir, name))
        os.rmdir(workdir)
    except OSError:
        pass

    summary = ", ".join(f"{n}: {c['evaluations']} cases / {c['distinct_nontrivial']} non-trivial" for n, c in stages_cov.items())
    print(f"{pid} tier={tier} seed={seed} shards={nshards} wall={wall_s:.1f}s  {summary}")
    if violations:
        return 1
    if harness_errors:
        for err in harness_errors:
            print("HARNESS-ERROR:", err)
        return 2
    if degenerate:
        for line in degenerate:
            print("HARNESS-ERROR: generator degenerate:", line)
        return 2
    if distinct < 2:
        print("HARNESS-ERROR: fewer than 2 distinct non-trivial cases")
        return 2
    return 0


def replay_main(args):
    pid = args.pid.upper()
    with open(args.replay, encoding="utf-8") as handle:
        doc = json.load(handle)
    # the environment of the shard that found the case (logging, warnings filter, preheated caches, event loop policy:
    # vlib/sut.py; the hash seed must be in place before the interpreter starts, hence the re-execution)
    os.environ["VERIF_SHARD"] = str(doc.get("shard", 0))
    if os.environ.get("PYTHONHASHSEED") != str(doc.get("shard", 0)):
        env = dict(os.environ, PYTHONHASHSEED=str(doc.get("shard", 0)))
        return subprocess.run([sys.executable, "-m", "vlib.runner", pid, "--replay", args.replay], cwd=ROOT, env=env, check=False).returncode
    prop = load_prop(pid)
    stage = {s.name: s for s in prop.STAGES}[doc["stage"]]
    try:
        stage.check(doc["case"])
    except Violation as violation:
        print(f"VIOLATION property={pid} replay={os.path.abspath(args.replay)}")
        print(f"  clause={violation.clause}: {violation.message[:2000]}")
        return 1
    print(f"{pid}: no violation on replay of {args.replay}")
    return 0


def main(argv=None):
    parser = argparse.ArgumentParser()
    parser.add_argument("pid")
    parser.add_argument("--tier", default=os.environ.get("VERIF_TIER", "quick"), choices=["quick", "thorough"])
    parser.add_argument("--seed", type=int, default=None)
    parser.add_argument("--replay")
    parser.add_argument("--shards", type=int, default=None)
    parser.add_argument("--scale", type=float, default=float(os.environ.get("VERIF_SCALE", "1")))
    parser.add_argument("--wall", type=float, default=None)
    parser.add_argument("--only-stage", default=None)
    parser.add_argument("--worker", action="store_true")
    parser.add_argument("--shard", type=int, default=0)
    parser.add_argument("--nshards", type=int, default=1)
    parser.add_argument("--out")
    args = parser.parse_args(argv)
    if args.seed is None:
        try:
            args.seed = int(os.environ.get("VERIF_SEED", "1"))
        except ValueError:
            args.seed = 1
    args.seed = abs(args.seed) % (2**31)
    try:
        if args.worker:
            return worker_main(args)
        if args.replay:
            return replay_main(args)
        return parent_main(args)
    except SystemExit:
        raise
    except BaseException:  # pylint:disable=broad-except
        traceback.print_exc()
        print("HARNESS-ERROR: unexpected exception in the runner")
        return 2


if __name__ == "__main__":
    sys.exit(main())
