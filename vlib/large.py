"""
Size-dependent cases: inputs that are legitimate but larger than anything the generated stages produce - runs of one
operator with more than 32 operands, hundreds of distinct keys, more than 100 key occurrences, collected expressions
with more than 64 constraints, a dozen modal-mark parts, dozens of packages - so that a cut-off, a batch size, a
fixed-size buffer or a limit that is silently applied inside ahbicht is met.

All of them are plain enumerations (stage kind "enum"): they run outside Hypothesis (which raises the interpreter's
recursion limit), are well-formed / valid by construction, and their expected results come from an iterative fold over
the construction (no recursion in the oracle either).  Where asynchronous evaluators are involved the evaluation is
repeated on several event loops (sut.run_fresh), with evaluators that really suspend: objects that live longer than one
call (the injected evaluators, module level state of ahbicht) then meet more than one loop under contention.

Expressions are right-nested with brackets - k1 op1 (k2 op2 (k3 ...)) - unless stated otherwise: Earley's cubic cost
applies to flat chains, nesting is cheap.
"""

import asyncio
import itertools

from vlib import evalhelp, ref, sched, sut
from vlib.core import Stage, fail

OPS_TEXT = {"and": " U ", "or": " O ", "xor": " X ", "then": ""}


def nested_text(operands, ops):
    """operands: list of texts; ops: list of kinds (len-1).  o1 op1 (o2 op2 (o3 ...))"""
    text = operands[-1]
    for operand, op in zip(reversed(operands[:-1]), reversed(ops)):
        text = f"{operand}{OPS_TEXT[op]}({text})"
    return text


def fold(values, ops, table=None):
    """value of v1 op1 (v2 op2 (...)) with ref.TABLE (letters) or the Boolean table (bools)"""
    table = table or ref.TABLE
    value = values[-1]
    for operand, op in zip(reversed(values[:-1]), reversed(ops)):
        value = table[op](operand, value)
    return value


def _shard(cases, shard, nshards):
    return [case for index, case in enumerate(cases) if index % nshards == shard]


# ----------------------------------------------------------------------------------------------------------- C01


def c01_cases(tier, shard, nshards, seed):  # pylint:disable=unused-argument
    cases = []
    lengths = [33, 40] if tier == "quick" else [33, 40, 48, 64]
    for length in lengths:
        for root, inner, bracketed in (("or", "and", False), ("xor", "and", False), ("or", "xor", False),
                                       ("and", "or", True), ("xor", "or", True), ("and", "xor", True), ("or", "then", False)):  # fmt: skip
            for position in ("first", "last"):
                cases.append({"length": length, "root": root, "inner": inner, "bracketed": bracketed, "lone": position})
    return _shard(cases, shard, nshards)


def c01_check(case):
    """[900] R <run of `length` operands joined by I>: the run must come back as one composition of I under the root R"""
    api = evalhelp.api()
    length, root, inner = case["length"], case["root"], case["inner"]
    keys = [str(k) for k in range(1, length + 1)]
    run = OPS_TEXT[inner].join(f"[{k}]" for k in keys)
    if case["bracketed"]:
        run = f"({run})"
    lone = "[900]"
    text = f"{lone}{OPS_TEXT[root]}{run}" if case["lone"] == "first" else f"{run}{OPS_TEXT[root]}{lone}"
    run_ast = [inner, [["rc", k] for k in keys]]
    ast = [root, [["hint", "900"], run_ast] if case["lone"] == "first" else [run_ast, ["hint", "900"]]]
    res = sut.call(api.parse_cond, text)
    if not res.ok:
        fail("long-run-rejected", f"the well-formed expression with a run of {length} operands was not parsed: {text!r}: {res!r}"[:700])
    if not ref.match(res.value, ast):
        shape = ref.tree_to_ast(res.value)
        fail("long-run-grouping", f"{text[:80]!r}... ({length} operands joined by {inner!r} under {root!r}) is grouped as "
             f"{str(shape)[:300]}..., expected one {inner!r} composition of all {length} operands under the {root!r} root")  # fmt: skip
    return {}


# ----------------------------------------------------------------------------------------------------------- C04


def c04_cases(tier, shard, nshards, seed):  # pylint:disable=unused-argument
    cases = []
    sizes = [40, 257, 300] if tier == "quick" else [40, 129, 256, 257, 300, 350]
    for size in sizes:
        for op in ("or", "and", "xor"):
            for pattern in ("all-F", "one-U", "one-K", "alternating"):
                cases.append({"size": size, "op": op, "pattern": pattern})
    return _shard(cases, shard, nshards)


def _letters(size, pattern):
    if pattern == "all-F":
        return ["F"] * size
    if pattern == "one-U":
        return ["F"] * (size - 3) + ["U"] + ["F"] * 2
    if pattern == "one-K":
        return ["F"] * (size // 2) + ["K"] + ["F"] * (size - size // 2 - 1)
    return ["F" if i % 2 else "U" for i in range(size)]


def c04_check(case):
    """`size` distinct requirement constraint keys (1..499) in one expression, through requirement_constraint_evaluation"""
    api = evalhelp.api()
    size, op = case["size"], case["op"]
    keys = [str(k) for k in range(1, size + 1)]
    letters = _letters(size, case["pattern"])
    assignment = dict(zip(keys, letters))
    text = nested_text([f"[{k}]" for k in keys], [op] * (size - 1))
    expected = ref.OUTCOME[fold(letters, [op] * (size - 1))]
    sut.setup_hardcoded(sut.make_cer(rc=assignment))
    res = sut.call(api.requirement_constraint_evaluation, text)
    if not res.ok:
        fail("many-keys-raises", f"requirement_constraint_evaluation of a valid expression with {size} distinct keys joined by {op!r} "
             f"({case['pattern']}) raised {res!r}"[:700])  # fmt: skip
    if evalhelp.outcome_of(res.value) != expected:
        fail("many-keys-outcome", f"{size} distinct keys joined by {op!r} ({case['pattern']}): outcome {evalhelp.outcome_of(res.value)}, "
             f"the four-valued operators give {expected}")  # fmt: skip
    return {}


# ----------------------------------------------------------------------------------------------------------- C05


def c05_cases(tier, shard, nshards, seed):  # pylint:disable=unused-argument
    cases = []
    for size in ([101, 130] if tier == "quick" else [64, 101, 130, 201, 260]):
        for op in ("or", "and", "xor"):
            for values in (("F", "U"), ("U", "F"), ("F", "K")):
                cases.append({"size": size, "op": op, "values": list(values)})
    return _shard(cases, shard, nshards)


def c05_check(case):
    """
    An expression with more than 100 occurrences of two requirement constraint keys: L = [2] op ([1] op ([1] ...)),
    compared with its operands swapped, with a hint and-ed on and with a format constraint attached
    """
    api = evalhelp.api()
    size, op = case["size"], case["op"]
    assignment = {"1": case["values"][0], "2": case["values"][1]}
    occurrences = ["2"] + ["1"] * (size - 1)
    left = nested_text([f"[{k}]" for k in occurrences], [op] * (size - 1))
    expected_letter = ref.TABLE["and"](fold([assignment[k] for k in occurrences], [op] * (size - 1)), assignment["2"])
    variants = {
        "original": f"({left}) U [2]",
        "operands swapped": f"[2] U ({left})",
        "hint and-ed on": f"(({left}) U [2]) U [501]",
        "format constraint attached": f"(({left}) U [2])[901]",
        "swapped, hint and-ed on": f"([2] U ({left})) U [501]",
    }
    outcomes = {}
    for name, text in variants.items():
        sut.setup_hardcoded(sut.make_cer(rc=assignment, hints={"501": "Hinweis 501"}, fc={"901": True}))
        res = sut.call(api.requirement_constraint_evaluation, text)
        if not res.ok:
            fail("large-transformed-raises", f"{name}: the expression with {size + 1} key occurrences joined by {op!r} under {assignment} "
                 f"raised {res!r}"[:700])  # fmt: skip
        outcomes[name] = evalhelp.outcome_of(res.value)
    if len(set(outcomes.values())) != 1:
        fail("large-outcome-changed", f"{size + 1} key occurrences joined by {op!r} under {assignment}: the outcomes differ between the "
             f"variants: {outcomes}")  # fmt: skip
    if outcomes["original"] != ref.OUTCOME[expected_letter]:
        fail("large-outcome", f"{size + 1} key occurrences joined by {op!r} under {assignment}: outcome {outcomes['original']}, the "
             f"four-valued operators give {ref.OUTCOME[expected_letter]}")  # fmt: skip
    return {}


# ----------------------------------------------------------------------------------------------------------- C07


def c07_cases(tier, shard, nshards, seed):  # pylint:disable=unused-argument
    cases = []
    for size in ([65, 80] if tier == "quick" else [33, 64, 65, 80, 129, 200]):
        for op in ("and", "or", "xor"):
            for late in ("last", "middle"):
                cases.append({"size": size, "op": op, "late": late})
    return _shard(cases, shard, nshards)


def c07_check(case):
    """
    `size` operands [1][901] and one [1][902] (last, or in the middle) joined by one operator, [1] fulfilled: all
    constraints are binding, the collected expression must evaluate like the direct reading under every truth assignment
    """
    api = evalhelp.api()
    size, op = case["size"], case["op"]
    fcs = ["901"] * size
    fcs[-1 if case["late"] == "last" else min(size - 2, size // 2 + 20)] = "902"
    text = nested_text([f"[1][{fc}]" for fc in fcs], [op] * (size - 1))
    sut.setup_hardcoded(sut.make_cer(rc={"1": "F"}))
    res = sut.call(api.requirement_constraint_evaluation, text)
    if not res.ok:
        fail("long-collected-raises", f"requirement_constraint_evaluation of {size} operands [1][9xx] joined by {op!r} raised {res!r}"[:600])
    fce = res.value.format_constraints_expression
    if not isinstance(fce, str):
        fail("long-collected-form", f"{size} operands [1][9xx] joined by {op!r}, [1] fulfilled: collected expression is {fce!r}")
    for truth in ({"901": True, "902": True}, {"901": True, "902": False}, {"901": False, "902": True}, {"901": False, "902": False}):
        expected = fold([truth[fc] for fc in fcs], [op] * (size - 1), ref.BOOL)
        sut.setup_hardcoded(sut.make_cer(fc=truth))
        evaluated = sut.call(api.format_constraint_evaluation, fce)
        if not evaluated.ok:
            fail("long-collected-not-evaluable", f"the expression collected from {size} operands [1][9xx] joined by {op!r} "
                 f"({len(fce)} characters) cannot be evaluated under {truth}: {evaluated!r}"[:700])  # fmt: skip
        if evaluated.value.format_constraints_fulfilled is not expected:
            fail("long-collected-meaning", f"the expression collected from {size} operands [1][9xx] joined by {op!r} evaluates to "
                 f"{evaluated.value.format_constraints_fulfilled} under {truth}, the direct reading gives {expected}")  # fmt: skip
    return {}


# ----------------------------------------------------------------------------------------------------------- C08


def _suspending_fc_evaluator(truth, pauses):
    """one FcEvaluator whose coroutine methods suspend `pauses` times and look their verdict up in the dict `truth`"""
    from ahbicht.content_evaluation.fc_evaluators import FcEvaluator
    from ahbicht.content_evaluation.rc_evaluators import DictBasedRcEvaluator
    from ahbicht.expressions.hints_provider import DictBasedHintsProvider
    from ahbicht.expressions.package_expansion import DictBasedPackageResolver
    from ahbicht.models.condition_nodes import EvaluatedFormatConstraint

    class Fc(FcEvaluator):
        edifact_format = sut.FMT
        edifact_format_version = sut.VER

    for key in [str(k) for k in range(901, 1000)]:

        async def method(self, entered_input, key=key):  # pylint:disable=unused-argument
            for _ in range(pauses):
                await asyncio.sleep(0)
            return EvaluatedFormatConstraint(truth[key], None if truth[key] else f"E{key}")

        setattr(Fc, f"evaluate_{key}", method)
    others = [DictBasedRcEvaluator({}), DictBasedHintsProvider({}), DictBasedPackageResolver({})]
    for other in others:
        other.edifact_format, other.edifact_format_version = sut.FMT, sut.VER
    return [Fc()] + others


def c08_cases(tier, shard, nshards, seed):  # pylint:disable=unused-argument
    cases = []
    for size in ([11, 16, 40] if tier == "quick" else [9, 11, 16, 25, 40, 70, 98]):
        for mix in (["and"], ["or", "and"], ["xor", "or", "and"]):
            cases.append({"size": size, "ops": mix})
    return _shard(cases, shard, nshards)


def c08_check(case):
    """
    `size` different format constraint keys in one expression; ONE evaluator set (coroutine methods that suspend) is
    injected once and asked four times, each time on a new event loop, under different truth assignments
    """
    api = evalhelp.api()
    size = case["size"]
    keys = [str(901 + i) for i in range(size)]
    ops = [case["ops"][i % len(case["ops"])] for i in range(size - 1)]
    text = nested_text([f"[{k}]" for k in keys], ops)
    truth = {}
    sut.configure(_suspending_fc_evaluator(truth, pauses=2))
    patterns = [lambda i: True, lambda i: i % 3 != 0, lambda i: i == size - 1, lambda i: i % 2 == 0]
    for round_number, pattern in enumerate(patterns):
        truth.clear()
        truth.update({k: pattern(i) for i, k in enumerate(keys)})
        expected = fold([truth[k] for k in keys], ops, ref.BOOL)
        try:
            value = sut.run_fresh(api.format_constraint_evaluation(text))
        except BaseException as error:  # pylint:disable=broad-except
            fail("many-tokens-raises", f"evaluation {round_number + 1} of 4 (each on its own event loop, one long-lived evaluator with "
                 f"suspending methods) of an expression with {size} format constraints raised {type(error).__name__}: {error}"[:700])  # fmt: skip
        if value.format_constraints_fulfilled is not expected:
            fail("many-tokens-value", f"evaluation {round_number + 1} of 4 of an expression with {size} format constraints "
                 f"({'/'.join(case['ops'])}) = {value.format_constraints_fulfilled}, Boolean evaluation gives {expected}")  # fmt: skip
        if (value.error_message is not None) != (not expected):
            fail("many-tokens-message", f"evaluation {round_number + 1} of 4 of an expression with {size} format constraints is "
                 f"{'un' if not expected else ''}fulfilled but error_message = {str(value.error_message)[:200]!r}")  # fmt: skip
    return {}


# ----------------------------------------------------------------------------------------------------------- C09


def c09_cases(tier, shard, nshards, seed):  # pylint:disable=unused-argument
    cases = []
    for size in ([11, 14] if tier == "quick" else [8, 11, 14, 24, 40]):
        for fulfilled_at in ("last", "none", "middle", "first"):
            for bare in (False, True):
                cases.append({"parts": size, "fulfilled": fulfilled_at, "bare": bare})
    return _shard(cases, shard, nshards)


def c09_check(case):
    """
    an AHB expression of `parts` modal-mark parts (+ an optional trailing bare one); evaluators that suspend; evaluated
    three times, each time on a new event loop: the first fulfilled part is reported, else the last one
    """
    api = evalhelp.api()
    size = case["parts"]
    marks = ["Muss", "Soll", "Kann", "M", "s", "K"]
    keys = [str(k) for k in range(1, size + 1)]
    position = {"last": size - 1, "middle": size // 2, "first": 0, "none": None}[case["fulfilled"]]
    assignment = {k: ("F" if index == position else "U") for index, k in enumerate(keys)}
    parts = [(marks[index % len(marks)], f"[{k}] U [{k}]") for index, k in enumerate(keys)]
    text = " ".join(f"{mark} {cond}" for mark, cond in parts) + (" Kann" if case["bare"] else "")
    if position is not None:
        chosen, fulfilled = parts[position][0], True
    elif case["bare"]:
        chosen, fulfilled = "Kann", True
    else:
        chosen, fulfilled = parts[-1][0], False
    for round_number in range(3):
        schedule = sched.Schedule([2, 1, 3, 0, 2])
        sut.configure(sched.make_providers(schedule, rc=assignment))

        async def job():
            tree = await api.resolve(text)
            return await api.evaluate_ahb_expression_tree(tree)

        try:
            result = sut.run_fresh(job())
        except BaseException as error:  # pylint:disable=broad-except
            fail("many-parts-raises", f"evaluation {round_number + 1} of 3 (each on its own event loop, suspending evaluators) of an AHB "
                 f"expression with {size} modal-mark parts{' and a bare one' if case['bare'] else ''} raised {type(error).__name__}: {error}"[:700])  # fmt: skip
        indicator = result.requirement_indicator
        if str(getattr(indicator, "value", indicator)) != ref.normalise_indicator(chosen):
            fail("many-parts-selected", f"AHB expression with {size} parts, fulfilled part: {case['fulfilled']}: reported indicator "
                 f"{indicator!r}, expected {ref.normalise_indicator(chosen)}")  # fmt: skip
        if result.requirement_constraint_evaluation_result.requirement_constraints_fulfilled is not fulfilled:
            fail("many-parts-selected", f"AHB expression with {size} parts, fulfilled part: {case['fulfilled']}: fulfilled = "
                 f"{result.requirement_constraint_evaluation_result.requirement_constraints_fulfilled!r}, expected {fulfilled}")  # fmt: skip
    return {}


def c09_deep_cases(tier, shard, nshards, seed):  # pylint:disable=unused-argument
    cases = []
    for depth in ([120, 260] if tier == "quick" else [60, 120, 200, 260, 300]):
        for first_fulfilled in (True, False):
            cases.append({"depth": depth, "first_fulfilled": first_fulfilled})
    return _shard(cases, shard, nshards)


def c09_deep_check(case):
    """
    'Muss <condition nested `depth` brackets deep> Soll [2][902] Kann': the parts are those three, and the first one whose
    requirement constraints are fulfilled is reported - the deeply nested first part or, if it is unfulfilled, the second.
    (The resolver copes with about 400 levels, see C02's stage deep; the depths used here stay below that.)
    """
    api = evalhelp.api()
    depth = case["depth"]
    keys = ["1", "3"]
    operands = [f"[{keys[index % 2]}]" for index in range(depth + 1)]
    ops = ["and" if index % 3 else "or" for index in range(depth)]
    nested = nested_text(operands, ops)
    first = "F" if case["first_fulfilled"] else "U"
    assignment = {"1": first, "3": first, "2": "F"}
    expected_first = fold([assignment[keys[index % 2]] for index in range(depth + 1)], ops)
    text = f"Muss {nested} Soll [2][902] Kann"
    sut.setup_hardcoded(sut.make_cer(rc=assignment, fc={"902": False}))

    async def job():
        tree = await api.resolve(text)
        return await api.evaluate_ahb_expression_tree(tree)

    res = sut.call(job)
    if not res.ok:
        fail("deep-condition-raises", f"evaluating 'Muss <{depth} brackets deep> Soll [2][902] Kann' raised {res!r}"[:600])
    indicator = str(getattr(res.value.requirement_indicator, "value", res.value.requirement_indicator))
    want = "MUSS" if expected_first == "F" else "SOLL"
    if indicator != want:
        fail("deep-condition-selected", f"'Muss <{depth} brackets deep, state {expected_first}> Soll [2][902] Kann': reported {indicator}, expected {want}")
    format_ok = res.value.format_constraint_evaluation_result.format_constraints_fulfilled
    if format_ok is not (want == "MUSS"):
        fail("deep-condition-selected", f"'Muss <{depth} brackets deep, state {expected_first}> Soll [2][902] Kann' with [902] unfulfilled: "
             f"format_constraints_fulfilled = {format_ok!r} although {want} was selected")  # fmt: skip
    return {}


# ----------------------------------------------------------------------------------------------------------- C10


def c10_cases(tier, shard, nshards, seed):  # pylint:disable=unused-argument
    cases = []
    for size in ([25, 32] if tier == "quick" else [12, 25, 32, 64, 120]):
        for distinct in (True, False):
            for ahb in (False, True):
                cases.append({"packages": size, "distinct": distinct, "ahb": ahb})
    return _shard(cases, shard, nshards)


def c10_check(case):
    """
    `packages` package occurrences in one expression, a package resolver that suspends, resolved three times (each on a
    new event loop): the tree must be that of the textually substituted expression
    """
    api = evalhelp.api()
    size = case["packages"]
    names = [f"{k}P" for k in range(1, size + 1)] if case["distinct"] else [f"{k % 3 + 1}P" for k in range(size)]
    table = {name: f"[{int(name[:-1])}] O [{int(name[:-1]) + 100}]" for name in set(names)}
    ops = [("and", "or", "xor")[i % 3] for i in range(size - 1)]
    body = nested_text([f"[{name}]" for name in names], ops)
    substituted = nested_text([f"({table[name]})" for name in names], ops)
    text, wanted_text = (f"Muss {body}", f"Muss {substituted}") if case["ahb"] else (body, substituted)
    sut.configure(sched.make_providers(sched.Schedule([]), packages={}))
    wanted = sut.call(api.resolve, wanted_text, False, True)
    if not wanted.ok:
        fail("many-packages-reference", f"the substituted expression was not resolved: {wanted!r}"[:500])
    for round_number in range(3):
        schedule = sched.Schedule([1, 2, 0, 3, 1, 2])
        sut.configure(sched.make_providers(schedule, packages=table))
        try:
            tree = sut.run_fresh(api.resolve(text, True, True))
        except BaseException as error:  # pylint:disable=broad-except
            fail("many-packages-raises", f"resolution {round_number + 1} of 3 (each on its own event loop, suspending package resolver) of "
                 f"an expression with {size} package occurrences raised {type(error).__name__}: {error}"[:700])  # fmt: skip
        if ref.dump_tree(tree) != ref.dump_tree(wanted.value):
            fail("many-packages-substitution", f"an expression with {size} package occurrences "
                 f"({'distinct' if case['distinct'] else 'three'} packages) does not resolve to the tree of the substituted text")  # fmt: skip
    return {}


# ----------------------------------------------------------------------------------------------------------- C13


def _expr(indicator, key=None):
    if key is None:
        return {"s": indicator, "parts": [[indicator, None]]}
    return {"s": f"{indicator} [{key}]", "parts": [[indicator, ["rc", key]]]}


def c13_cases(tier, shard, nshards, seed):  # pylint:disable=unused-argument
    cases = []
    for groups, segments in ([(70, 10), (3, 66), (40, 30)] if tier == "quick" else [(70, 10), (3, 66), (40, 30), (130, 5), (64, 1), (200, 60)]):
        for soll in (True, False):
            cases.append({"groups": groups, "segments": segments, "soll": soll})
    return _shard(cases, shard, nshards)


def c13_check(case):
    """one segment group with `groups` sub-groups and `segments` segments (more than 64 direct children)"""
    from ahbicht.validation.validation import validate_deep_anwendungshandbuch, validate_segment_level

    from vlib import vtree
    from vlib.props import c13

    marks = [("Muss", "1"), ("Kann", "2"), ("X", "3"), ("Soll", "1"), ("Muss", "2"), ("Kann", None), ("S", "3"), ("M", None)]
    rc = {"1": "F", "2": "U", "3": "F"}

    def segment(path, index):
        mark, key = marks[index % len(marks)]
        return {"d": path, "expr": _expr(mark, key), "des": [
            {"t": "ft", "d": f"{path}/D", "expr": _expr(*marks[(index + 3) % len(marks)]), "inp": "x" if index % 2 else None}]}

    root = {"d": "G", "expr": _expr("Muss"), "groups": [], "segs": []}
    for index in range(case["groups"]):
        mark, key = marks[(index + 1) % len(marks)]
        root["groups"].append({"d": f"G/G{index}", "expr": _expr(mark, key), "groups": [], "segs": [segment(f"G/G{index}/S", index)]})
    for index in range(case["segments"]):
        root["segs"].append(segment(f"G/S{index}", index))
    tree = {"groups": [root], "table": {}}
    expected = vtree.model(tree, rc, case["soll"])
    for what, func, argument in (("validate_deep_anwendungshandbuch", validate_deep_anwendungshandbuch, vtree.build(tree)),
                                 ("validate_segment_level", validate_segment_level, vtree.build_group(root))):  # fmt: skip
        sut.setup_hardcoded(sut.make_cer(rc=rc))
        res = sut.call(func, argument, case["soll"])
        c13.compare(expected, res, tree, f"{what} of a group with {case['groups']} sub-groups and {case['segments']} segments "
                    f"(soll_is_required={case['soll']})")  # fmt: skip
    return {}


# ----------------------------------------------------------------------------------------------------------- C17


def c17_cases(tier, shard, nshards, seed):  # pylint:disable=unused-argument
    cases = []
    for size in ([101, 150] if tier == "quick" else [64, 101, 150, 256, 400]):
        for period in (3, 7):
            for entered in ("offered-late", "not-offered-early", "absent"):
                cases.append({"size": size, "period": period, "entered": entered})
    return _shard(cases, shard, nshards)


def c17_check(case):
    """a value pool with more than 100 entries of which every `period`-th is admissible"""
    from ahbicht.models.validation_values import RequirementValidationValue
    from ahbicht.validation.validation import validate_data_element_valuepool, validate_segment

    from vlib import vtree
    from vlib.props import c17

    size, period = case["size"], case["period"]
    rc = {"1": "F", "2": "U"}
    pool = [{"q": f"Q{i:03d}", "expr": _expr("X", "1" if i % period == 0 else "2")} for i in range(size)]
    offered = vtree.offered(pool, rc)
    entered = {"offered-late": offered[-1], "not-offered-early": pool[1]["q"], "absent": None}[case["entered"]]
    element = {"t": "vp", "d": "V", "pool": pool, "inp": entered}
    sut.setup_hardcoded(sut.make_cer(rc=rc))
    res = sut.call(validate_data_element_valuepool, vtree.build_element(element), RequirementValidationValue.IS_REQUIRED)
    what = f"validate_data_element_valuepool of a pool with {size} entries (every {period}. admissible), input {entered!r}"
    if not res.ok:
        fail("large-pool-raises", f"{what} raised {res!r}"[:600])
    c17.judge(res.value.validation_result, element, offered, False, what)
    element = {"t": "vp", "d": "S/V", "pool": pool, "inp": entered}
    seg = {"d": "S", "expr": _expr("Muss"), "des": [element]}
    sut.setup_hardcoded(sut.make_cer(rc=rc))
    res = sut.call(validate_segment, vtree.build_segment(seg), RequirementValidationValue.IS_REQUIRED)
    if not res.ok:
        fail("large-pool-raises", f"validate_segment with a pool of {size} entries raised {res!r}"[:600])
    c17.judge(res.value[1].validation_result, element, offered, False, what.replace("validate_data_element_valuepool", "validate_segment"))
    return {}


# ----------------------------------------------------------------------------------------------------------- C19

JSON_RECURSION_FROM = 40  # known finding "deep-trees:json-recursion": marshmallow's nested schemas recurse per level


def c19_cases(tier, shard, nshards, seed):  # pylint:disable=unused-argument
    cases = []
    for depth in ([5, 15, 30, 60, 120] if tier == "quick" else [5, 15, 25, 30, 35, 60, 80, 120, 200, 300]):
        for shape in ("right", "mixed", "ahb"):
            cases.append({"depth": depth, "shape": shape})
    return _shard(cases, shard, nshards)


def c19_check(case):
    """TreeSchema round trip of parse trees nested `depth` levels deep (outside Hypothesis: default recursion limit)"""
    from ahbicht.json_serialization.tree_schema import TreeSchema

    from vlib.core import known_signatures

    api = evalhelp.api()
    depth, shape = case["depth"], case["shape"]
    ops = {"right": ["and"], "mixed": ["and", "xor", "then", "or"], "ahb": ["or", "and"]}[shape]
    text = nested_text([f"[{k % 400 + 1}]" for k in range(depth + 1)], [ops[i % len(ops)] for i in range(depth)])
    parsed = sut.call(api.resolve, f"Muss {text}") if shape == "ahb" else sut.call(api.parse_cond, text)
    if not parsed.ok:
        fail("deep-tree-parse", f"the expression nested {depth} levels deep was not parsed: {parsed!r}"[:500])
    info = {"known": 0}
    what = f"TreeSchema round trip of the {'resolved AHB' if shape == 'ahb' else 'parse'} tree of an expression nested {depth} levels deep"
    for step in ("dump", "load"):
        res = sut.call(TreeSchema().dump, parsed.value) if step == "dump" else sut.call(TreeSchema().load, dumped)  # noqa: F821
        if res.ok:
            if step == "dump":
                dumped = res.value  # noqa: F841
            elif ref.dump_tree_flat(res.value) != ref.dump_tree_flat(parsed.value):
                fail("deep-tree-roundtrip", f"{what}: the loaded tree differs from the original")
            continue
        if res.is_a(RecursionError) and depth >= JSON_RECURSION_FROM and "deep-trees:json-recursion" in known_signatures("C19"):
            info["known"] += 1
            return info
        clause = "json-recursion" if res.is_a(RecursionError) and depth >= JSON_RECURSION_FROM else "deep-tree-roundtrip"
        fail(clause, f"{what}: {step} raised {res!r}"[:600])
    return info


def c19_classify(case, info):
    labels = ["deep-trees", f"depth>={case['depth'] // 50 * 50}"]
    if info.get("known"):
        labels.append("excluded:known-finding-json-recursion")
    return labels, True


def stage(name, check, cases, sample=None):
    return Stage(name=name, kind="enum", check=check, classify=lambda case, info: ([name], True), enumerate=cases,
                 sample=sample or (lambda case: case))  # fmt: skip


_ = itertools  # (kept for the case tables above when they are extended)
