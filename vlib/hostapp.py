"""
What a host application may well contain next to ahbicht: marshmallow schemas of its own whose class names coincide with
names ahbicht uses (TokenSchema for access tokens, TreeSchema for a category tree ...).  marshmallow keeps a process-wide
registry of schema classes by name; importing this module puts the namesakes there.  ahbicht's serialisation must not
care (C19) - nothing here is ever used by the checks.
"""

from marshmallow import Schema, fields

NAMES = [
    "TokenSchema", "TreeSchema", "_TokenOrTreeSchema", "ConciseTreeSchema", "ConciseConditionKeyTreeSchema",
    "ContentEvaluationResultSchema", "EvaluatedFormatConstraintSchema", "CategorizedKeyExtractSchema",
    "AhbExpressionEvaluationResultSchema", "RequirementConstraintEvaluationResultSchema",
    "FormatConstraintEvaluationResultSchema", "RequirementIndicatorSchema", "ValidationResultInContextSchema",
    "PackageKeyConditionExpressionMappingSchema", "ConditionKeyConditionTextMappingSchema",
]  # fmt: skip

NAMESAKES = {name: type(name, (Schema,), {"value": fields.String(), "__module__": __name__}) for name in NAMES}
