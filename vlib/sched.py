"""
Schedule-controlled asynchronous evaluators / hints provider / package resolver.

asyncio is cooperative and single-threaded: the only interleaving points inside ahbicht are the awaits on
user-supplied evaluators, providers and resolvers.  The classes below are those user-supplied pieces; every call
consumes the next integer d of a generated schedule and yields to the event loop d times before answering, so the
completion order of concurrently gathered awaitables is an input like any other (shrinkable, replayable).
"""

import asyncio

from vlib import sut


class Schedule:
    """a list of small integers; the k-th asynchronous call yields delays[k % len] times"""

    def __init__(self, delays):
        self.delays = list(delays)
        self.labels = []  # label of call k (call order)
        self.completed = []  # call numbers in completion order
        self.in_flight = []
        self.overlaps = []  # (label, label) pairs that were in flight at the same time
        self.max_active = 0

    @property
    def calls(self):
        return len(self.labels)

    async def pause(self, label):
        number = len(self.labels)
        delay = self.delays[number % len(self.delays)] if self.delays else 0
        self.labels.append(label)
        for other in self.in_flight:
            self.overlaps.append((self.labels[other], label))
        self.in_flight.append(number)
        self.max_active = max(self.max_active, len(self.in_flight))
        try:
            for _ in range(delay):
                await asyncio.sleep(0)
        finally:
            self.in_flight.remove(number)
        self.completed.append(number)

    def record(self, label):
        """a call that does not yield (plain function): it still counts, and overlaps with everything in flight"""
        number = len(self.labels)
        self.labels.append(label)
        for other in self.in_flight:
            self.overlaps.append((self.labels[other], label))
        self.completed.append(number)

    def reordered_pairs(self):
        """pairs of labels (a, b): a was called before b but b completed before a"""
        position = {number: index for index, number in enumerate(self.completed)}
        pairs = []
        for first in range(len(self.labels)):
            for second in range(first + 1, len(self.labels)):
                if first in position and second in position and position[second] < position[first]:
                    pairs.append((self.labels[first], self.labels[second]))
        return pairs


class BackendUnavailable(Exception):
    """what a user-supplied evaluator raises when the system it asks is down"""


def make_providers(schedule, rc=None, fc=None, hints=None, packages=None, fc_function=None, decoys=True, sync_fc=(), rc_raises=()):
    """
    rc: key -> letter; fc: key -> bool (message embeds the key); hints: key -> text; packages: key -> text | None.
    fc_function(key, text) -> (bool, message) overrides fc (used by C15: the answer depends on the entered text).
    Every second rc key gets a plain (non-async) evaluation method - both kinds are supported by ahbicht.
    sync_fc: fc keys whose evaluation method is a plain function that - like a helper shared by many user methods would -
    reads the text from the documented context variable text_to_be_evaluated_by_format_constraint, not from its argument.
    rc_raises: rc keys whose evaluation method raises BackendUnavailable (after its pauses, if it is a coroutine).
    """
    from ahbicht.content_evaluation.evaluationdatatypes import EvaluationContext
    from ahbicht.content_evaluation.fc_evaluators import FcEvaluator
    from ahbicht.content_evaluation.rc_evaluators import RcEvaluator
    from ahbicht.expressions.hints_provider import HintsProvider
    from ahbicht.expressions.package_expansion import PackageResolver
    from ahbicht.models.condition_nodes import EvaluatedFormatConstraint
    from ahbicht.models.mapping_results import PackageKeyConditionExpressionMapping

    rc = rc or {}
    fc = fc or {}
    hints = hints or {}
    packages = packages or {}

    class Rc(RcEvaluator):
        edifact_format = sut.FMT
        edifact_format_version = sut.VER

        seen_scopes = {}  # key -> scope of the context the evaluation method was handed (before it narrows it)

        def _get_default_context(self):
            return EvaluationContext(scope=None)

    for index, (key, value) in enumerate(sorted(rc.items())):
        if index % 3 == 2:

            def plain(self, evaluatable_data, context, key=key, value=value):  # pylint:disable=unused-argument
                self.seen_scopes[key] = context.scope
                if key in rc_raises:
                    raise BackendUnavailable(f"the backend of [{key}] does not answer")
                return sut.cfv(value)

            setattr(Rc, f"evaluate_{key}", plain)
        else:

            async def delayed(self, evaluatable_data, context, key=key, value=value):  # pylint:disable=unused-argument
                # the evaluation context handed to a method is that evaluation's own: narrowing its scope must not
                # be visible to (or be overwritten by) the evaluation of another key
                self.seen_scopes[key] = context.scope
                context.scope = f"$.key{key}"
                await schedule.pause(("rc", key, value))
                if key in rc_raises:
                    raise BackendUnavailable(f"the backend of [{key}] does not answer")
                if context.scope != f"$.key{key}":
                    return sut.cfv("U" if value == "F" else "F")  # evaluated in a foreign scope: a different answer
                return sut.cfv(value)

            setattr(Rc, f"evaluate_{key}", delayed)

    class Fc(FcEvaluator):
        edifact_format = sut.FMT
        edifact_format_version = sut.VER

    fc_keys = sorted(set(fc) | set(getattr(fc_function, "keys", ())))
    shared_unfulfilled = {key: EvaluatedFormatConstraint(False, None) for key in fc_keys}
    for key in fc_keys:

        async def check(self, entered_input, key=key):  # pylint:disable=unused-argument
            if fc_function is not None:
                await schedule.pause(("fc", key, entered_input))
                ok, message = fc_function(key, entered_input)
                if not ok and message is None:
                    # a user method may well return one shared constant for "unfulfilled, no message of my own"
                    return shared_unfulfilled[key]
            else:
                await schedule.pause(("fc", key, fc[key]))
                ok, message = fc[key], (None if fc[key] else f"E{key}")
            return EvaluatedFormatConstraint(ok, message)

        def check_sync(self, entered_input, key=key):  # pylint:disable=unused-argument
            from ahbicht.content_evaluation.fc_evaluators import text_to_be_evaluated_by_format_constraint

            seen = text_to_be_evaluated_by_format_constraint.get()
            schedule.record(("fc", key, seen))
            ok, message = fc_function(key, seen)
            return shared_unfulfilled[key] if (not ok and message is None) else EvaluatedFormatConstraint(ok, message)

        setattr(Fc, f"evaluate_{key}", check_sync if (key in sync_fc and fc_function is not None) else check)

    class Hints(HintsProvider):
        edifact_format = sut.FMT
        edifact_format_version = sut.VER

        async def get_hint_text(self, condition_key):
            await schedule.pause(("hint", condition_key, hints.get(condition_key)))
            return hints.get(condition_key)

    class Packages(PackageResolver):
        edifact_format = sut.FMT
        edifact_format_version = sut.VER

        async def _look_up(self, package_key):
            await schedule.pause(("pkg", package_key, packages.get(package_key)))
            return PackageKeyConditionExpressionMapping(
                edifact_format=sut.FMT, package_key=package_key, package_expression=packages.get(package_key)
            )

        if len(schedule.delays) % 2 == 1:

            def get_condition_expression(self, package_key):  # pylint:disable=invalid-overridden-method
                # ahbicht awaits what this method returns: any awaitable will do, e.g. the task of a request that is
                # already under way (a resolver that starts its look-ups eagerly)
                return asyncio.ensure_future(self._look_up(package_key))

        else:

            async def get_condition_expression(self, package_key):
                return await self._look_up(package_key)

    providers = [Rc(), Fc(), Hints(), Packages()]
    if decoys:
        # evaluators registered for another EDIFACT format (one evaluator per format is the normal set-up): same keys,
        # opposite answers; they must never be consulted for UTILMD data
        from efoli import EdifactFormat

        class DecoyRc(RcEvaluator):
            edifact_format = EdifactFormat.MSCONS
            edifact_format_version = sut.VER

            def _get_default_context(self):
                return EvaluationContext(scope=None)

        for key, value in rc.items():

            def wrong_rc(self, evaluatable_data, context, value=value):  # pylint:disable=unused-argument
                return sut.cfv("U" if value == "F" else "F")

            setattr(DecoyRc, f"evaluate_{key}", wrong_rc)

        class DecoyFc(FcEvaluator):
            edifact_format = EdifactFormat.MSCONS
            edifact_format_version = sut.VER

        for key in fc_keys:

            def wrong_fc(self, entered_input, key=key):  # pylint:disable=unused-argument
                return EvaluatedFormatConstraint(False, f"decoy {key}")

            setattr(DecoyFc, f"evaluate_{key}", wrong_fc)
        providers += [DecoyRc(), DecoyFc()]
    return providers
