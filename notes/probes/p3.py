import random, sys, warnings, logging
warnings.simplefilter("ignore"); logging.disable(logging.CRITICAL)
import ahbicht.content_evaluation
from ahbicht.expressions.condition_expression_parser import parse_condition_expression_to_tree as p
from lark import Tree, Token
PREC = {"or":0,"xor":1,"and":2,"then":3}
SPELL = {"or":["O","o","∨"],"xor":["X","x","⊻"],"and":["U","u","∧"],"then":[""]}
NAME = {"or":"or_composition","xor":"xor_composition","and":"and_composition","then":"then_also_composition"}
def gen(r, depth):
    if depth==0 or r.random()<0.3:
        k=r.random()
        if k<0.7: return ("atom","condition",str(r.randint(1,999)))
        if k<0.85: return ("atom","package",f"{r.randint(1,99)}P"+ (f"{r.randint(0,3)}..{r.randint(4,9)}" if r.random()<0.5 else ""))
        return ("atom","time_condition",f"UB{r.randint(1,3)}")
    kind=r.choice(list(PREC))
    n=r.randint(2,4)
    return ("op",kind,[gen(r,depth-1) for _ in range(n)])
def render(r,node,parent=None, ws=True):
    def w(): return r.choice(["",""," ","  ","\t","\n"]) if ws else ""
    if node[0]=="atom":
        s="["+w()+node[2].replace("P","P"+w(),1) if node[1]=="package" and ".." in node[2] else "["+w()+node[2]
        s+= w()+"]"
        if r.random()<0.1: s="("+w()+s+w()+")"
        return s
    kind=node[1]
    parts=[]
    for c in node[2]:
        cs=render(r,c,kind,ws)
        if c[0]=="op" and (PREC[c[1]]<=PREC[kind] ):
            cs="("+w()+cs+w()+")"
        elif c[0]=="op" and r.random()<0.15:
            cs="("+cs+")"
        parts.append(cs)
    out=parts[0]
    for q in parts[1:]:
        out+= w()+r.choice(SPELL[kind])+w()+q
    return out
def match(l,node):
    if node[0]=="atom":
        if not isinstance(l,Tree) or l.data!=node[1]: return False
        toks="".join(str(c) for c in l.children)
        return toks==node[2]
    kids=node[2]
    def m(l,i,j):
        if j-i==1: return match(l,kids[i])
        if not isinstance(l,Tree) or l.data!=NAME[node[1]] or len(l.children)!=2: return False
        return any(m(l.children[0],i,k) and m(l.children[1],k,j) for k in range(i+1,j))
    return m(l,0,len(kids))
def norm(node):
    # collapse: a child op of same kind stays (bracketed). nothing to do
    return node
bad=0; N=int(sys.argv[1]); seed=int(sys.argv[2])
r=random.Random(seed)
import time; t0=time.time()
for i in range(N):
    ast=gen(r,r.randint(1,3))
    s=render(r,ast)
    try:
        t=p(s)
    except SyntaxError:
        print("SYNTAXERR",repr(s)); bad+=1; continue
    if not match(t,ast):
        bad+=1
        if bad<15: print("MISMATCH",repr(s),"\n   ",t)
print("bad",bad,"of",N, time.time()-t0)
