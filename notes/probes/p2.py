import asyncio, warnings
warnings.simplefilter("ignore")
import logging; logging.disable(logging.CRITICAL)
import ahbicht.content_evaluation
from ahbicht.expressions.condition_expression_parser import parse_condition_expression_to_tree as p
from ahbicht.expressions.ahb_expression_parser import parse_ahb_expression_to_single_requirement_indicator_expressions as pa
from ahbicht.expressions.expression_resolver import parse_expression_including_unresolved_subexpressions as pr
from ahbicht.content_evaluation import is_valid_expression

def t(f, s):
    try:
        r = f(s)
        if asyncio.iscoroutine(r): r = asyncio.run(r)
        return "OK " + (r.pretty().replace("\n"," | ")[:150] if hasattr(r,'pretty') else repr(r))
    except SyntaxError as e:
        return "SyntaxError"
    except BaseException as e:
        return f"!!! {type(e).__name__}: {str(e)[:100]}"
for s in ["Muss [1", "Muss [1] U", "Muss ([1]", "M [1]]", "Muss [1] Soll [", "X [1] U", "Muss []", "Muss [1P1..]","", " ", "[", "[1]U", "U[1]", "[1][2]", "()", "[1] [2]", "[UB4]", "[ub1]", "[1p]", "[1 P]", "[1P 0..1]", "[1P0 ..1]", "[1 2]", "[٣]", "[¹]", "[1]\x0b[2]", "[1]\x00", "[1]∧∧[2]","Muss", "muss[1]", "mUsS [1]", "Mus[2]", "Muss[1]U", "MU[1]", "M U [1]", "x[1]", "X", "x", "Muss Muss", "Muss[1] Muss", "Muss[1] X", "X[1] Muss[2]", "X[1]X[2]", "[1]X[2]", "Muss[1]X[2]", "Muss\n[1]", "M[1]S[2]K[3]", "M[1]S[2]K", "K M[1]", "Muss [1P0..1]", "Muss [UB1]", "MussU[1]", "Muss U[1]", "Muss [1]U", "Muss ∧[1]", "Muss [1]∧", "Muss[1] O", "O", "Muss[1] U Soll[2]"]:
    print(repr(s).ljust(22), "| cond:", t(p, s)[:60].ljust(60), "| ahb:", t(pa, s)[:70].ljust(70), "| res:", t(pr, s)[:100])
