import asyncio, warnings, logging
warnings.simplefilter("ignore"); logging.disable(logging.CRITICAL)
import ahbicht.content_evaluation
from p4 import setup, ContentEvaluationResult, C, E
from maus.models.anwendungshandbuch import AhbMetaInformation, DeepAnwendungshandbuch
from maus.models.edifact_components import *
from ahbicht.validation.validation import *
cer = ContentEvaluationResult(hints={"501":"h501"}, format_constraints={"901":E(True),"902":E(False,"e902")}, requirement_constraints={"1":C.FULFILLED,"2":C.UNFULFILLED,"3":C.UNKNOWN}, packages={"7P":"[1] O [501]"})
setup(cer)
def ahb(bad):
    return DeepAnwendungshandbuch(meta=AhbMetaInformation(pruefidentifikator="12345"), lines=[SegmentGroup(discriminator="G", ahb_expression=bad[0], segment_groups=[SegmentGroup(discriminator="GG", ahb_expression="Muss[1]", segments=[])], segments=[Segment(discriminator="S", ahb_expression=bad[1], data_elements=[DataElementFreeText(discriminator="D", ahb_expression=bad[2], entered_input="x", data_element_id="1234"), DataElementValuePool(discriminator="V", data_element_id="0001", entered_input="A", value_pool=[ValuePoolEntry(qualifier="A", meaning="a", ahb_expression=bad[3]),ValuePoolEntry(qualifier="B", meaning="b", ahb_expression="X[2]")])])])])
INV="Muss [1] Soll [2] O [501]"
for bad in [("Kann","Kann","Kann","Kann"),(INV,"Kann","Kann","Kann"),("Kann",INV,"Kann","Kann"),("Kann","Kann",INV,"Kann"),("Kann","Kann","Kann",INV),(INV,INV,INV,INV),("Muss [7P]","X","X","X")]:
    try:
        r = asyncio.run(validate_deep_anwendungshandbuch(ahb(bad)))
        print([(x.discriminator, str(x.validation_result.requirement_validation), (x.validation_result.hints or "")[:20], getattr(x.validation_result,"possible_values",None)) for x in r])
    except BaseException as e: print("!!!",type(e).__name__,e)
