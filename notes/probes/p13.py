import asyncio, warnings, logging, random, sys, collections
from contextvars import ContextVar
warnings.simplefilter("ignore"); logging.disable(logging.CRITICAL)
import inject
import ahbicht.content_evaluation
from ahbicht.content_evaluation import is_valid_expression
from ahbicht.content_evaluation.evaluationdatatypes import EvaluatableData, EvaluatableDataProvider
from ahbicht.content_evaluation.evaluator_factory import create_content_evaluation_result_based_evaluators
from ahbicht.content_evaluation.token_logic_provider import SingletonTokenLogicProvider, TokenLogicProvider
from ahbicht.models.content_evaluation_result import ContentEvaluationResultSchema
from efoli import EdifactFormat, EdifactFormatVersion
from p7 import gen, render, valid, has_rc
F_,V_=EdifactFormat.UTILMD, EdifactFormatVersion.FV2210
cv=ContextVar("cer",default=None)
def configure(b):
    b.bind(TokenLogicProvider, SingletonTokenLogicProvider([*create_content_evaluation_result_based_evaluators(F_,V_)]))
    b.bind_to_provider(EvaluatableDataProvider, lambda: EvaluatableData(body=ContentEvaluationResultSchema().dump(cv.get()), edifact_format=F_, edifact_format_version=V_))
inject.clear_and_configure(configure)
async def main():
    r=random.Random(int(sys.argv[1])); cnt=collections.Counter()
    for i in range(int(sys.argv[2])):
        ast=gen(r,r.randint(1,3)); s=render(ast)
        pre=r.choice(["Muss ","X ","", "Kann [1] Soll "])
        v=valid(ast)
        try:
            got=await is_valid_expression(pre+s, lambda c: cv.set(c))
        except BaseException as e:
            cnt["exc "+type(e).__name__]+=1; print("EXC",type(e).__name__,str(e)[:100],pre+s); continue
        ok = (got[0]==v) and ((got[1] is None)==v)
        cnt["ok" if ok else "BAD"]+=1
        if not ok: print("BAD",pre+s,got,v)
    print(cnt)
asyncio.run(main())
