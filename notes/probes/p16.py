import asyncio, warnings, logging, random, sys, collections, copy
warnings.simplefilter("ignore"); logging.disable(logging.CRITICAL)
import ahbicht.content_evaluation, ahbicht
from p4 import setup, ContentEvaluationResult, C, E
from p7 import gen, render, valid, has_rc, state, keys, F, U, K, N
from maus.models.anwendungshandbuch import AhbMetaInformation, DeepAnwendungshandbuch
from maus.models.edifact_components import *
from ahbicht.validation.validation import validate_deep_anwendungshandbuch
print(ahbicht.__file__)
MM={"M":"MUSS","MUSS":"MUSS","S":"SOLL","SOLL":"SOLL","K":"KANN","KANN":"KANN"}
class NIE(Exception): pass
def gen_valid(r,d):
    for _ in range(50):
        a=gen(r,d)
        if valid(a): return a
    return ("rc","1")
def gen_expr(r):
    x=r.random()
    def case(s): return "".join(c.upper() if r.random()<0.5 else c.lower() for c in s)
    if x<0.15: ind=r.choice(["M","Muss","S","Soll","K","Kann","X","O","U"]); return [(case(ind),None)]
    if x<0.35: return [(case(r.choice("XOU")),gen_valid(r,r.randint(0,2)))]
    parts=[(case(r.choice(["M","Muss","S","Soll","K","Kann"])),gen_valid(r,r.randint(0,2))) for _ in range(r.randint(1,3))]
    if r.random()<0.25: parts.append((case(r.choice(["M","Muss","S","Soll","K","Kann"])),None))
    return parts
def rend(parts): return "".join(i+("" if a is None else " "+render(a)+" ") for i,a in parts)
def own(parts,a,soll):
    sel=None
    for ind,ast in parts:
        st=N if ast is None else state(ast,a)
        ful={F:True,N:True,U:False,K:None}[st]
        sel=(ind,ful)
        if ful: break
    ind,ful=sel; indn=MM.get(ind.upper(),"PREFIX")
    if indn=="SOLL": indn="MUSS" if soll else "KANN"
    if ful is False: return "IS_FORBIDDEN"
    if ful is None:
        if indn in("MUSS","PREFIX"): raise NIE()
        return "IS_OPTIONAL"
    return "IS_REQUIRED" if indn in("MUSS","PREFIX") else "IS_OPTIONAL"
def fulfilled(parts,a):
    for ind,ast in parts:
        st=N if ast is None else state(ast,a)
        if st in(F,N): return True
    return False
def comb(p,c):
    if p is None or p=="IS_REQUIRED": return c
    return "IS_OPTIONAL" if c=="IS_REQUIRED" else c
def model(tree,a,soll):
    out=[]
    def group(g,parent):
        st="IS_FORBIDDEN" if parent=="IS_FORBIDDEN" else comb(parent,own(g["expr"],a,soll))
        out.append((g["d"],st))
        if st!="IS_FORBIDDEN":
            for sg in g["groups"]: group(sg,st)
            for s in g["segs"]: seg(s,st)
    def seg(s,parent):
        st=comb(parent,own(s["expr"],a,soll)); out.append((s["d"],st))
        if st=="IS_FORBIDDEN": return
        for de in s["des"]:
            if de["t"]=="ft":
                x=comb(st,own(de["expr"],a,soll)); out.append((de["d"],x+("_AND_FILLED" if de["inp"] else "_AND_EMPTY")))
            else:
                pool=de["pool"]
                off=[q for q,_ in pool] if len(pool)==1 else [q for q,e in pool if fulfilled(e,a)]
                if not off: out.append((de["d"],"IS_FORBIDDEN"))
                elif de["inp"] in off: out.append((de["d"],"IS_REQUIRED_AND_FILLED"))
                else: out.append((de["d"],"IS_REQUIRED_AND_EMPTY"))
    for g in tree: group(g,None)
    return out
def gen_tree(r):
    cnt=[0]
    def d(p): cnt[0]+=1; return f"{p}{cnt[0]}"
    def de():
        if r.random()<0.6: return {"t":"ft","d":d("D"),"expr":gen_expr(r),"inp":r.choice([None,"","x","yy"])}
        pool=[(q,gen_expr(r)) for q in r.sample(["A","B","C","Z1","9"],r.randint(1,4))]
        return {"t":"vp","d":d("V"),"pool":pool,"inp":r.choice([None,"","A","B","Q"])}
    def seg(): return {"d":d("S"),"expr":gen_expr(r),"des":[de() for _ in range(r.randint(0,3))]}
    def group(depth): return {"d":d("G"),"expr":gen_expr(r),"groups":[group(depth-1) for _ in range(r.randint(0,2))] if depth>0 else [],"segs":[seg() for _ in range(r.randint(0,3))]}
    return [group(r.randint(0,2)) for _ in range(r.randint(1,3))]
def build(tree):
    def de(x):
        if x["t"]=="ft": return DataElementFreeText(discriminator=x["d"],ahb_expression=rend(x["expr"]),entered_input=x["inp"],data_element_id="1234")
        return DataElementValuePool(discriminator=x["d"],data_element_id="0001",entered_input=x["inp"],value_pool=[ValuePoolEntry(qualifier=q,meaning="m"+q,ahb_expression=rend(e)) for q,e in x["pool"]])
    def seg(s): return Segment(discriminator=s["d"],ahb_expression=rend(s["expr"]),data_elements=[de(x) for x in s["des"]])
    def grp(g): return SegmentGroup(discriminator=g["d"],ahb_expression=rend(g["expr"]),segment_groups=[grp(x) for x in g["groups"]],segments=[seg(s) for s in g["segs"]])
    return DeepAnwendungshandbuch(meta=AhbMetaInformation(pruefidentifikator="12345"),lines=[grp(g) for g in tree])
M={F:C.FULFILLED,U:C.UNFULFILLED,K:C.UNKNOWN}
def main():
    r=random.Random(int(sys.argv[1])); cnt=collections.Counter()
    RCK=["1","2","3","4","499","2000","2499"]; HI=["500","501","502","900"]; FCK=["901","902","903","999"]
    for i in range(int(sys.argv[2])):
        tree=gen_tree(r); soll=r.random()<0.5
        w=r.choice([[F,U,K],[F,F,F,U],[F,F,U,K],[F]])
        a={k:r.choice(w) for k in RCK}
        setup(ContentEvaluationResult(hints={h:"H"+h for h in HI},format_constraints={f:E(r.random()<0.5,"e") for f in FCK},requirement_constraints={k:M[v] for k,v in a.items()},packages={}))
        try: exp=model(tree,a,soll)
        except NIE: exp="NIE"
        try:
            res=asyncio.run(validate_deep_anwendungshandbuch(build(tree),soll_is_required=soll))
            got=[(x.discriminator,str(x.validation_result.requirement_validation)) for x in res]
        except NotImplementedError: got="NIE"
        except BaseException as e: got="EXC "+type(e).__name__+str(e)[:80]
        cnt["nie" if exp=="NIE" else "list"]+=1
        if got!=exp:
            cnt["BAD"]+=1
            if cnt["BAD"]<4: print("BAD soll=",soll,a,"\n exp",exp,"\n got",got,"\n",build(tree))
        else:
            if exp!="NIE":
                cnt["nodes"]+=len(exp)
                for _,s in exp: cnt[s.replace("_AND_FILLED","").replace("_AND_EMPTY","")]+=1
    print(cnt)
main()
