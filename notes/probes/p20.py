import asyncio, random, sys, itertools, warnings, logging, collections
warnings.simplefilter("ignore"); logging.disable(logging.CRITICAL)
import ahbicht.content_evaluation
from p7 import *
def paths(n,p=()):
    yield p,n
    if n[0]=="op":
        yield from paths(n[2],p+(2,)); yield from paths(n[3],p+(3,))
    elif n[0]=="then":
        yield from paths(n[2],p+(2,))
def replace(n,p,f):
    if not p: return f(n)
    l=list(n); l[p[0]]=replace(n[p[0]],p[1:],f); return tuple(l)
def gen_valid(r,d):
    for _ in range(100):
        a=gen(r,d)
        if valid(a): return a
    return ("rc","1")
async def outcome(s,a,hk):
    cer=ContentEvaluationResult(hints={h:f"H{h}" for h in HI},format_constraints={f:E(True) for f in FC},requirement_constraints={k:M[x] for k,x in a.items()},packages={})
    setup(cer)
    try:
        res=await requirement_constraint_evaluation(s); return (res.requirement_constraints_fulfilled,res.requirement_is_conditional)
    except BaseException as e: return "EXC "+type(e).__name__
async def main():
    r=random.Random(int(sys.argv[1])); cnt=collections.Counter()
    for i in range(int(sys.argv[2])):
        ast=gen_valid(r,r.randint(1,4)); rk=sorted(keys(ast,"rc",set()))
        a={k:r.choice([F,U,K]) for k in RC}
        base=await outcome(render(ast),a,None)
        if isinstance(base,str): cnt["baseexc"]+=1; print("BASE EXC",render(ast),base); continue
        sites=list(paths(ast))
        kind=r.choice(["hint","fc","swap","unk"])
        if kind=="hint":
            # root or operand of an op
            cand=[(p,n) for p,n in sites if not p or (len(p)>=1 and p[-1] in(2,3) and True)]
            # operand of U/O/X only: parent must be op
            def parent_is_op(p):
                if not p: return True
                par=ast
                for x in p[:-1]: par=par[x]
                return par[0]=="op"
            cand=[(p,n) for p,n in cand if parent_is_op(p)]
            p,n=r.choice(cand); h=("hint",r.choice(HI))
            t=replace(ast,p,lambda x:("op","and",x,h) if r.random()<0.5 else ("op","and",h,x))
        elif kind=="fc":
            cand=[(p,n) for p,n in sites if has_rc(n)]
            if not cand: continue
            p,n=r.choice(cand)
            t=replace(ast,p,lambda x:("then",("fc",r.choice(FC)),x,r.random()<0.3))
        elif kind=="swap":
            cand=[(p,n) for p,n in sites if n[0]=="op"]
            if not cand: continue
            p,n=r.choice(cand); t=replace(ast,p,lambda x:("op",x[1],x[3],x[2]))
        else:
            if base[0] is None or K not in [a[k] for k in rk]: cnt["unk-skip"]+=1; continue
            uk=[k for k in rk if a[k]==K]
            for vals in itertools.product([F,U],repeat=len(uk)):
                a2=dict(a); a2.update(zip(uk,vals))
                o=await outcome(render(ast),a2,None)
                if o!=base: cnt["BAD"]+=1; print("BAD unk",render(ast),a,a2,base,o)
            cnt["unk"]+=1; continue
        if not valid(t): cnt["BAD"]+=1; print("BAD criterion says transformed invalid",render(ast),"->",render(t)); continue
        o=await outcome(render(t),a,None)
        cnt[kind]+=1
        if o!=base: cnt["BAD"]+=1; print("BAD",kind,render(ast),"->",render(t),a,base,o)
    print(cnt)
asyncio.run(main())
