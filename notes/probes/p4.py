import asyncio, warnings, logging
warnings.simplefilter("ignore"); logging.disable(logging.CRITICAL)
import inject
import ahbicht.content_evaluation
from ahbicht.content_evaluation.evaluationdatatypes import EvaluatableData, EvaluatableDataProvider
from ahbicht.content_evaluation.evaluator_factory import create_hardcoded_evaluators
from ahbicht.content_evaluation.token_logic_provider import SingletonTokenLogicProvider, TokenLogicProvider
from ahbicht.models.content_evaluation_result import ContentEvaluationResult
from ahbicht.models.condition_nodes import ConditionFulfilledValue as C, EvaluatedFormatConstraint as E
from ahbicht.expressions.expression_resolver import parse_expression_including_unresolved_subexpressions as pr
from ahbicht.expressions.ahb_expression_evaluation import evaluate_ahb_expression_tree
from efoli import EdifactFormat, EdifactFormatVersion
def setup(cer):
    ev = create_hardcoded_evaluators(cer, EdifactFormat.UTILMD, EdifactFormatVersion.FV2210)
    def configure(b):
        b.bind(TokenLogicProvider, SingletonTokenLogicProvider([*ev]))
        b.bind_to_provider(EvaluatableDataProvider, lambda: EvaluatableData(body={}, edifact_format=EdifactFormat.UTILMD, edifact_format_version=EdifactFormatVersion.FV2210))
    inject.clear_and_configure(configure)
cer = ContentEvaluationResult(hints={"501":"h501","502":"h502"}, format_constraints={"901":E(True),"902":E(False,"e902")}, requirement_constraints={"1":C.FULFILLED,"2":C.UNFULFILLED,"3":C.UNKNOWN}, packages={"1P":"[1]U[2]"})
setup(cer)
async def ev(s, **kw):
    try:
        t = await pr(s, **kw)
        r = await evaluate_ahb_expression_tree(t)
        return r
    except BaseException as e:
        return f"!!! {type(e).__name__}: {str(e)[:120]}"
for s in ["x[1]","X[1]","u [2]","o","O","x","mUSS[1]","s[2]k[1]","M[2]S[2]K[2]","M[3]K","M[3]K[1]", "Muss[1][901]", "Muss[1][902]","Muss[2][902]", "Muss[501][902]", "Muss [1]U[501]", "Muss([1]U[501])[902]","Muss[1]U[2][902]","Muss[1]O[2][902]", "Muss[1P]", "Muss [1] O [501]", "Muss [501] O [502]", "Muss [501]X[902]", "Muss [1] U ([501] O [902])","Muss [1][2]", "Muss[901][902]","Muss[901]U[902]","Muss [901]", "Muss [501]"]:
    print(repr(s).ljust(30), asyncio.run(ev(s, resolve_packages=True)))
