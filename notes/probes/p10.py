import asyncio, warnings, logging, random, re, sys, collections
warnings.simplefilter("ignore"); logging.disable(logging.CRITICAL)
import ahbicht.content_evaluation
from p4 import setup, ContentEvaluationResult, C, E
exec(open("p3.py").read().split("bad=0;")[0].split("import ahbicht.content_evaluation")[1])
from ahbicht.expressions.expression_resolver import parse_expression_including_unresolved_subexpressions as pr
r=random.Random(int(sys.argv[1]))
cnt=collections.Counter()
async def main():
    for i in range(int(sys.argv[2])):
        # package table
        pk={}
        for k in range(r.randint(1,4)):
            a=gen(r,r.randint(0,2)); pk[f"{r.randint(1,30)}P"]=render(r,a)
        setup(ContentEvaluationResult(hints={},format_constraints={},requirement_constraints={},packages=pk))
        # expression using packages from table
        def g(d):
            if d==0 or r.random()<0.3:
                x=r.random()
                if x<0.4: return ("atom","condition",str(r.randint(1,999)))
                if x<0.8:
                    k=r.choice(list(pk)); return ("atom","package",k+(f"{r.randint(0,3)}..{r.randint(4,9)}" if r.random()<0.5 else ""))
                return ("atom","time_condition",f"UB{r.randint(1,3)}")
            return ("op",r.choice(list(PREC)),[g(d-1) for _ in range(r.randint(2,3))])
        ast=g(r.randint(0,3)); s=render(r,ast)
        if r.random()<0.4:
            s=r.choice(["Muss","m","Soll","K","X","O","U"])+" "+s
            if s[0] not in "XOU" and r.random()<0.5: s+=" "+r.choice(["Soll","K"])+render(r,g(1))
        UB={"UB1":"[932]","UB2":"[934]","UB3":"([932][492]X[934][493])"}
        def subub(t): return re.sub(r"\[\s*(UB[123])\s*\]", lambda m:UB[m.group(1)], t)
        def subp(t): return re.sub(r"\[\s*(\d+P)\s*(\d+\.\.\d+)?\s*\]", lambda m:"("+subub(pk[m.group(1)])+")", t)
        exp_s=subub(subp(s))
        try:
            got=await pr(s,resolve_packages=True,replace_time_conditions=True)
            exp=await pr(exp_s,resolve_packages=False,replace_time_conditions=False)
        except BaseException as e:
            cnt["exc "+type(e).__name__]+=1; print("EXC",type(e).__name__,repr(s),pk); continue
        if got==exp: cnt["equal"]+=1
        else:
            cnt["diff"]+=1
            if cnt["diff"]<5: print("DIFF",repr(s),pk,"\n",got,"\n",exp)
    print(cnt)
asyncio.run(main())
