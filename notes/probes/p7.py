import asyncio, random, sys, itertools, warnings, logging, time, collections
warnings.simplefilter("ignore"); logging.disable(logging.CRITICAL)
import inject
import ahbicht.content_evaluation
from ahbicht.content_evaluation.evaluationdatatypes import EvaluatableData, EvaluatableDataProvider
from ahbicht.content_evaluation.evaluator_factory import create_hardcoded_evaluators
from ahbicht.content_evaluation.token_logic_provider import SingletonTokenLogicProvider, TokenLogicProvider
from ahbicht.models.content_evaluation_result import ContentEvaluationResult
from ahbicht.models.condition_nodes import ConditionFulfilledValue as C, EvaluatedFormatConstraint as E
from ahbicht.expressions import InvalidExpressionError
from ahbicht.expressions.condition_expression_parser import parse_condition_expression_to_tree as pc
from ahbicht.expressions.requirement_constraint_expression_evaluation import requirement_constraint_evaluation
from ahbicht.expressions.format_constraint_expression_evaluation import format_constraint_evaluation
from efoli import EdifactFormat, EdifactFormatVersion
def setup(cer):
    ev = create_hardcoded_evaluators(cer, EdifactFormat.UTILMD, EdifactFormatVersion.FV2210)
    def configure(b):
        b.bind(TokenLogicProvider, SingletonTokenLogicProvider([*ev]))
        b.bind_to_provider(EvaluatableDataProvider, lambda: EvaluatableData(body={}, edifact_format=EdifactFormat.UTILMD, edifact_format_version=EdifactFormatVersion.FV2210))
    inject.clear_and_configure(configure)
F,U,K,N="F","U","K","N"
def AND(a,b):
    if a==N: return b
    if b==N: return a
    if U in (a,b): return U
    if K in (a,b): return K
    return F
def OR(a,b):
    if a==N: return b
    if b==N: return a
    if F in (a,b): return F
    if K in (a,b): return K
    return U
def XOR(a,b):
    if a==N: return b
    if b==N: return a
    if K in (a,b): return K
    return F if (a==F)!=(b==F) else U
RC=["1","2","3","4","499","2000","2499"]; HI=["500","501","502","900"]; FC=["901","902","903","999"]
def gen(r,d,need_rc=False):
    # returns ast: ("rc",k) ("hint",k) ("fc",k) ("op",kind,l,r) ("then",fcnode,other,fc_left)
    if d==0 or r.random()<0.25:
        x=r.random()
        if need_rc or x<0.5: return ("rc",r.choice(RC))
        if x<0.75: return ("hint",r.choice(HI))
        if x<0.85: return ("fc",r.choice(FC))
        return ("then",("fc",r.choice(FC)),("hint",r.choice(HI)),r.random()<0.2)
    x=r.random()
    if x<0.25:
        other=gen(r,d-1,need_rc=True)
        if not has_rc(other): other=("op","and",other,("rc",r.choice(RC)))
        return ("then",("fc",r.choice(FC)),other,r.random()<0.2)
    kind=r.choice(["and","or","xor"])
    return ("op",kind,gen(r,d-1,need_rc),gen(r,d-1))
def has_rc(n):
    if n[0]=="rc": return True
    if n[0] in("hint","fc"): return False
    if n[0]=="op": return has_rc(n[2]) or has_rc(n[3])
    return has_rc(n[2])
P={"or":0,"xor":1,"and":2,"then":3}
S={"or":"O","xor":"X","and":"U"}
def render(n,parent=-1,r=None):
    if n[0] in("rc","hint","fc"): return f"[{n[1]}]"
    if n[0]=="op":
        me=P[n[1]]
        s=render(n[2],me)+" "+S[n[1]]+" "+render(n[3],me+0.5)  # right child same op gets brackets
        return "("+s+")" if parent>me or (parent==me+0.5 and False) or parent>=me+0.5 and parent!=me else s if parent<=me else "("+s+")"
    fc=render(n[1],3.5); o=render(n[2],3.5)
    s=(fc+o) if n[3] else (o+fc)
    return "("+s+")" if parent>3 else s
def render(n,parent_prec=-1):
    if n[0] in("rc","hint","fc"): return f"[{n[1]}]"
    if n[0]=="op":
        me=P[n[1]]
        s=render(n[2],me)+" "+S[n[1]]+" "+render(n[3],me+0.5)
        return "("+s+")" if parent_prec>me else s
    fc=render(n[1],4); o=render(n[2],4)
    s=(fc+o) if n[3] else (o+fc)
    return "("+s+")" if parent_prec>3 else s
class Invalid(Exception): pass
def valid(n):
    if n[0] in("rc","hint","fc"): return True
    if n[0]=="then": return valid(n[2])
    l,rr=n[2],n[3]
    if not(valid(l) and valid(rr)): return False
    if n[1] in("or","xor"):
        if has_rc(l)!=has_rc(rr): return False
        if {l[0],rr[0]}=={"hint","fc"}: return False
    return True
def state(n,a):
    if n[0]=="rc": return a[n[1]]
    if n[0] in("hint","fc"): return N
    if n[0]=="then": return state(n[2],a)
    l,rr=state(n[2],a),state(n[3],a)
    return {"and":AND,"or":OR,"xor":XOR}[n[1]](l,rr)
def fcv(n,a,fa,mode):
    if n[0] in("rc","hint"): return None
    if n[0]=="fc": return fa[n[1]]
    if n[0]=="then":
        o=n[2]
        inner=fcv(o,a,fa,mode)
        if o[0]=="hint" or state(o,a)==F:
            return fa[n[1][1]] if inner is None else (fa[n[1][1]] and inner)
        return inner if mode=="keep" else None
    l,rr=fcv(n[2],a,fa,mode),fcv(n[3],a,fa,mode)
    if l is None: return rr
    if rr is None: return l
    return {"and":lambda x,y:x and y,"or":lambda x,y:x or y,"xor":lambda x,y:x!=y}[n[1]](l,rr)
def keys(n,t,acc):
    if n[0]==t: acc.add(n[1])
    elif n[0]=="op": keys(n[2],t,acc);keys(n[3],t,acc)
    elif n[0]=="then": keys(n[1],t,acc);keys(n[2],t,acc)
    return acc
M={F:C.FULFILLED,U:C.UNFULFILLED,K:C.UNKNOWN}
async def run(seed,N_):
    r=random.Random(seed); cnt=collections.Counter(); t0=time.time()
    for i in range(N_):
        ast=gen(r,r.randint(1,4)); s=render(ast)
        rk=sorted(keys(ast,"rc",set())); fk=sorted(keys(ast,"fc",set())); hk=sorted(keys(ast,"hint",set()))
        v=valid(ast)
        assigns=list(itertools.product([F,U,K],repeat=len(rk)))
        r.shuffle(assigns)
        for av in assigns[:9]:
            a=dict(zip(rk,av))
            cer=ContentEvaluationResult(hints={h:f"H{h}" for h in hk},format_constraints={f:E(True) for f in fk},requirement_constraints={k:M[x] for k,x in a.items()},packages={})
            setup(cer)
            try:
                res=await requirement_constraint_evaluation(s)
                got="ok"
            except InvalidExpressionError: got="invalid"
            except BaseException as e:
                got="EXC "+type(e).__name__; 
            cnt[("valid" if v else "invalid",got)]+=1
            if got.startswith("EXC") and cnt[got]<4: cnt[got]+=1; print(got, s)
            if (got=="ok")!=v:
                if cnt["vm"]<5: print("VALIDITY MISMATCH",s,a,got,v)
                cnt["vm"]+=1; continue
            if got!="ok": continue
            st=state(ast,a)
            exp={F:(True,True),N:(True,False),U:(False,True),K:(None,None)}[st]
            if (res.requirement_constraints_fulfilled,res.requirement_is_conditional)!=exp:
                cnt["statemismatch"]+=1
                if cnt["statemismatch"]<5: print("STATE MISMATCH",s,a,res,st)
            fce=res.format_constraints_expression
            for fv in itertools.product([True,False],repeat=len(fk)):
                fa=dict(zip(fk,fv))
                if fce is None: val=True
                else:
                    setup(ContentEvaluationResult(hints={},format_constraints={f:E(x, None if x else "e"+f) for f,x in fa.items()},requirement_constraints={},packages={}))
                    try:
                        fr=await format_constraint_evaluation(fce); val=fr.format_constraints_fulfilled
                        if (fr.error_message is not None)==val: cnt["c08"]+=1; print("C08",fce,fa,fr)
                    except BaseException as e:
                        cnt["fceexc"]+=1; print("FCE EXC",s,fce,type(e).__name__,e); break
                for mode in("drop","keep"):
                    e_=fcv(ast,a,fa,mode); e_=True if e_ is None else e_
                    if e_!=val:
                        cnt["fc_mismatch_"+mode]+=1
                        if cnt["fc_mismatch_"+mode]<4: print("FC MISMATCH",mode,s,a,fa,"got",fce,val,"exp",e_)
    print(cnt, time.time()-t0)
if __name__=="__main__": asyncio.run(run(int(sys.argv[1]),int(sys.argv[2])))
