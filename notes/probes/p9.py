import asyncio, warnings, logging, itertools
warnings.simplefilter("ignore"); logging.disable(logging.CRITICAL)
import ahbicht.content_evaluation
from p4 import setup, ContentEvaluationResult, C, E
from ahbicht.condition_node_distinction import derive_condition_node_type as d
from ahbicht.expressions.condition_expression_parser import extract_categorized_keys, extract_categorized_keys_from_tree, parse_condition_expression_to_tree as pc
from ahbicht.models.categorized_key_extract import CategorizedKeyExtract
def t(f,*a,**k):
    try:
        r=f(*a,**k)
        if asyncio.iscoroutine(r): r=asyncio.run(r)
        return r
    except BaseException as e: return f"!!! {type(e).__name__}: {e}"
for k in ["0","1","499","500","900","901","999","1000","1999","2000","2499","2500","00001","0499","99999999999999999999"]:
    print(k, t(d,k))
print(t(extract_categorized_keys,"[2]U[1]U[10]U[2]O[501][901]U[2000]"))
print(t(extract_categorized_keys,"[1]U[01]"))
print(t(extract_categorized_keys,"Muss [1] Soll [2][901] Kann"))
print(t(extract_categorized_keys,"[1P]U[UB3]U[10P0..1]U[2P]"))
setup(ContentEvaluationResult(hints={},format_constraints={},requirement_constraints={},packages={"1P":"[7]U[UB1]","10P":"[8][902]","2P":"[3P]"}))
print(t(extract_categorized_keys,"[1P]U[UB3]U[10P0..1]U[2P]",resolve_packages=True,replace_time_conditions=True))
print(t(extract_categorized_keys,"[1P]U[UB3]U[10P0..1]U[2P]",resolve_packages=False,replace_time_conditions=True))
print(t(extract_categorized_keys,"[0]"))
print(t(extract_categorized_keys,"[1000]"))
for m,n in [(0,0),(1,0),(0,1),(2,2),(3,1)]:
    k=CategorizedKeyExtract(hint_keys=["501"],format_constraint_keys=[str(901+i) for i in range(n)],requirement_constraint_keys=[str(1+i) for i in range(m)],package_keys=[],time_condition_keys=[])
    rs=k.generate_possible_content_evaluation_results()
    print(m,n,len(rs), 3**m*2**n)
