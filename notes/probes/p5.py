import warnings, logging
warnings.simplefilter("ignore"); logging.disable(logging.CRITICAL)
import ahbicht.content_evaluation
from ahbicht.models.evaluation_results import *
from ahbicht.models.enums import ModalMark, PrefixOperator
from ahbicht.models.content_evaluation_result import *
from ahbicht.models.condition_nodes import *
from ahbicht.models.categorized_key_extract import *
r = RequirementConstraintEvaluationResult(requirement_constraints_fulfilled=None, requirement_is_conditional=None, format_constraints_expression=None, hints=None)
s = RequirementConstraintEvaluationResultSchema()
d = s.dump(r); print(d)
try: print(s.load(d))
except Exception as e: print("!!!", type(e).__name__, e)
a = AhbExpressionEvaluationResult(requirement_indicator=PrefixOperator.X, requirement_constraint_evaluation_result=r, format_constraint_evaluation_result=FormatConstraintEvaluationResult(format_constraints_fulfilled=True, error_message=None))
sa = AhbExpressionEvaluationResultSchema()
d = sa.dump(a); print(d)
try: print(sa.load(d)==a)
except Exception as e: print("!!!", type(e).__name__, e)
# json string round trip
import json
try: print(sa.loads(sa.dumps(a))==a)
except Exception as e: print("!!!", type(e).__name__, e)
e = EvaluatedFormatConstraint(True, None); es=EvaluatedFormatConstraintSchema(); print(es.dump(e), es.load(es.dump(e))==e)
e = EvaluatedFormatConstraint(False, "x"); print(es.dump(e), es.load(es.dump(e))==e)
c = ContentEvaluationResult(hints={"501":None,"502":"x"}, format_constraints={"901":EvaluatedFormatConstraint(True)}, requirement_constraints={"1":ConditionFulfilledValue.UNKNOWN, "2":ConditionFulfilledValue.NEUTRAL}, packages=None)
cs=ContentEvaluationResultSchema(); d=cs.dump(c); print(d); print(cs.load(d)==c, cs.load(d))
print(cs.loads(cs.dumps(c))==c)
import uuid
c.id=uuid.uuid4(); c.packages={"1P":"[1]"}; print(cs.loads(cs.dumps(c))==c)
k = CategorizedKeyExtract(hint_keys=["501"], format_constraint_keys=[], requirement_constraint_keys=["1"], package_keys=["1P"], time_condition_keys=["UB1"])
ks=CategorizedKeyExtractSchema(); print(ks.loads(ks.dumps(k))==k)
f = FormatConstraintEvaluationResult(format_constraints_fulfilled=False, error_message="e"); fs=FormatConstraintEvaluationResultSchema(); print(fs.loads(fs.dumps(f))==f)
for ind in [ModalMark.MUSS, ModalMark.SOLL, ModalMark.KANN, PrefixOperator.X, PrefixOperator.O, PrefixOperator.U]:
    a.requirement_indicator=ind; a.requirement_constraint_evaluation_result.requirement_constraints_fulfilled=True;a.requirement_constraint_evaluation_result.requirement_is_conditional=False
    b=sa.loads(sa.dumps(a)); print(ind, b==a, type(b.requirement_indicator))
