import random, sys, warnings, logging, time
warnings.simplefilter("ignore"); logging.disable(logging.CRITICAL)
exec(open("p3.py").read().split("bad=0;")[0])
# flat chains: sequence of atoms joined by random ops, expected structure by precedence climbing
def flat(r,n):
    atoms=[("atom","condition",str(r.randint(1,999))) for _ in range(n)]
    ops=[r.choice(["or","xor","and","then"]) for _ in range(n-1)]
    return atoms,ops
def build(atoms,ops,level=0):
    order=["or","xor","and","then"]
    if len(atoms)==1: return atoms[0]
    if level>3: raise Exception
    kind=order[level]
    groups=[];cur_a=[atoms[0]];cur_o=[]
    for a,o in zip(atoms[1:],ops):
        if o==kind:
            groups.append((cur_a,cur_o)); cur_a=[a]; cur_o=[]
        else:
            cur_a.append(a); cur_o.append(o)
    groups.append((cur_a,cur_o))
    if len(groups)==1: return build(atoms,ops,level+1)
    return ("op",kind,[build(a,o,level+1) for a,o in groups])
r=random.Random(int(sys.argv[2])); bad=0; t0=time.time()
for i in range(int(sys.argv[1])):
    n=r.randint(2,int(sys.argv[3]))
    atoms,ops=flat(r,n)
    s=atoms and "".join(f"[{a[2]}]"+ (r.choice(SPELL[o]) if o else "") for a,o in zip(atoms,ops+[None]))
    ast=build(atoms,ops)
    t=p(s)
    if not match(t,ast):
        bad+=1; print("MISMATCH",s,t.pretty())
print("bad",bad,time.time()-t0)
