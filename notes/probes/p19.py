import re, random, sys, warnings, logging, collections, time
warnings.simplefilter("ignore"); logging.disable(logging.CRITICAL)
import ahbicht.content_evaluation
from ahbicht.expressions.condition_expression_parser import parse_condition_expression_to_tree as pc
exec(open("p3.py").read().split("bad=0;")[0].split("import ahbicht.content_evaluation")[1])
TOK = re.compile(r"""(?P<ws>[ \t\f\r\n]+)|(?P<lb>\[)|(?P<rb>\])|(?P<lp>\()|(?P<rp>\))|(?P<rep>[0-9]+\.\.[1-9][0-9]*)|(?P<pkg>[0-9]+P)|(?P<ub>UB[123])|(?P<int>[0-9]+)|(?P<op>[UOXuox∧∨⊻])""")
def tokenize(s):
    out=[]; i=0
    while i<len(s):
        m=TOK.match(s,i)
        if not m: return None
        if m.lastgroup!="ws": out.append((m.lastgroup,m.group()))
        i=m.end()
    return out
def accepts(s):
    if any(c.isdigit() and not c.isascii() for c in s): return "UNSPEC"
    t=tokenize(s)
    if t is None: return False
    pos=[0]
    def peek(): return t[pos[0]][0] if pos[0]<len(t) else None
    def eat(k):
        if peek()==k: pos[0]+=1; return True
        return False
    def term():
        if eat("lp"):
            return expr() and eat("rp")
        if eat("lb"):
            if eat("int"): return eat("rb")
            if eat("pkg"):
                eat("rep"); return eat("rb")
            if eat("ub"): return eat("rb")
            return False
        return False
    def expr():
        if not term(): return False
        while True:
            if peek()=="op":
                pos[0]+=1
                if not term(): return False
            elif peek() in("lp","lb"):
                if not term(): return False
            else: return True
    ok=expr() and pos[0]==len(t)
    return ok
ALPH="[]()UOXuox∧∨⊻0123456789P.B \t\n"
def mutate(r,s):
    s=list(s)
    for _ in range(r.randint(1,3)):
        k=r.random(); 
        if not s: s=[r.choice(ALPH)]; continue
        i=r.randrange(len(s))
        if k<0.3: del s[i]
        elif k<0.6: s.insert(i,r.choice(ALPH))
        elif k<0.8: s[i]=r.choice(ALPH)
        elif i+1<len(s): s[i],s[i+1]=s[i+1],s[i]
    return "".join(s)
r=random.Random(int(sys.argv[1])); cnt=collections.Counter(); t0=time.time()
for i in range(int(sys.argv[2])):
    k=r.random()
    if k<0.3: s=render(r,gen(r,r.randint(0,3)))
    elif k<0.8: s=mutate(r,render(r,gen(r,r.randint(0,2))))
    else: s="".join(r.choice(ALPH+"⊻∧Pp.UB[]") for _ in range(r.randint(0,12)))
    ref=accepts(s)
    try: pc(s); got=True
    except SyntaxError: got=False
    except BaseException as e: got="EXC "+type(e).__name__
    cnt[(ref,got)]+=1
    if ref!="UNSPEC" and ref!=got:
        cnt["MISMATCH"]+=1
        if cnt["MISMATCH"]<15: print("MISMATCH ref",ref,"got",got,repr(s))
print(cnt,time.time()-t0)
