import asyncio, warnings, logging, random, sys, collections
warnings.simplefilter("ignore"); logging.disable(logging.CRITICAL)
import ahbicht.content_evaluation
from p4 import setup, ContentEvaluationResult, C, E
from lark import Tree, Token
from ahbicht.expressions.expression_resolver import parse_expression_including_unresolved_subexpressions as pr
from ahbicht.expressions.ahb_expression_parser import parse_ahb_expression_to_single_requirement_indicator_expressions as pa
from ahbicht.expressions.condition_expression_parser import parse_condition_expression_to_tree as pc
r=random.Random(int(sys.argv[1])); cnt=collections.Counter()
def case(s): return "".join(c.upper() if r.random()<0.5 else c.lower() for c in s)
MM=["M","Muss","S","Soll","K","Kann"]; PO=["X","O","U"]
OPS=["U","O","X","u","o","x","∧","∨","⊻",""]
def ws(): return r.choice(["",""," ","  ","\t","\n"," \n "])
def ce():
    n=r.randint(1,4); out=""
    for i in range(n):
        a=r.choice([f"[{r.randint(1,999)}]",f"[{r.randint(1,99)}P]",f"[{r.randint(1,9)}P0..{r.randint(1,9)}]","[UB1]","[UB2]","[UB3]",f"([{r.randint(1,999)}]{r.choice(OPS[:9])}[{r.randint(1,999)}])"])
        out+=a
        if i<n-1: out+=ws()+r.choice(OPS)+ws()
    return out
async def main():
    for i in range(int(sys.argv[2])):
        form=r.random()
        parts=[]
        if form<0.15:
            parts=[(case(r.choice(MM+PO)),None)]
        elif form<0.4:
            parts=[(case(r.choice(PO)),ce())]
        else:
            parts=[(case(r.choice(MM)),ce()) for _ in range(r.randint(1,4))]
            if r.random()<0.3: parts.append((case(r.choice(MM)),None))
        s=""
        for ind,c in parts:
            s+=ind+(ws()+c+ws() if c is not None else "")
        try:
            t=await pr(s,resolve_packages=False,replace_time_conditions=False)
        except BaseException as e:
            cnt["exc "+type(e).__name__]+=1
            if cnt["exc "+type(e).__name__]<8: print("EXC",type(e).__name__,repr(s))
            continue
        ok = t.data=="ahb_expression" and len(t.children)==len(parts)
        if ok:
            for ch,(ind,c) in zip(t.children,parts):
                if c is None:
                    ok &= ch.data=="requirement_indicator" and str(ch.children[0])==ind
                else:
                    ok &= ch.data=="single_requirement_indicator_expression" and str(ch.children[0])==ind and ch.children[1]==pc(c)
        cnt["ok" if ok else "BAD"]+=1
        if not ok and cnt["BAD"]<8: print("BAD",repr(s),parts,"\n",t)
    print(cnt)
asyncio.run(main())
