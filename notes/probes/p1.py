# C11 quick probe
from ahbicht.expressions.condition_expression_parser import parse_condition_expression_to_tree as p
from ahbicht.expressions.ahb_expression_parser import parse_ahb_expression_to_single_requirement_indicator_expressions as pa
t = p("[1]U[2]")
print(t)
t.children[0] = "junk"
print(p("[1]U[2]"))
t2 = p("[3]O([4]U[5])")
t2.children[1].children.append("x")
print(p("[3]O([4]U[5])"))
a = pa("Muss [1] Soll [2]")
a.children.pop()
print(pa("Muss [1] Soll [2]"))
