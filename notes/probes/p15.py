import warnings, logging, time, sys
warnings.simplefilter("ignore"); logging.disable(logging.CRITICAL)
import ahbicht.content_evaluation
from ahbicht.content_evaluation.german_strom_and_gas_tag import is_xtag_limit, has_no_utc_offset
from multiprocessing import Pool
# pure integer civil-from-days (Howard Hinnant)
def civil(z):
    z += 719468; era = (z if z >= 0 else z - 146096) // 146097; doe = z - era * 146097
    yoe = (doe - doe // 1460 + doe // 36524 - doe // 146096) // 365; y = yoe + era * 400
    doy = doe - (365 * yoe + yoe // 4 - yoe // 100); mp = (5 * doy + 2) // 153
    d = doy - (153 * mp + 2) // 5 + 1; m = mp + 3 if mp < 10 else mp - 9
    return (y + (m <= 2), m, d)
def days(y, m, d):
    y -= m <= 2; era = (y if y >= 0 else y - 399) // 400; yoe = y - era * 400
    doy = (153 * (m + (-3 if m > 2 else 9)) + 2) // 5 + d - 1; doe = yoe * 365 + yoe // 4 - yoe // 100 + doy
    return era * 146097 + doe - 719468
def last_sunday(y, m):
    d = days(y, m, 31)  # March and October have 31 days
    wd = (d + 4) % 7  # 0 = Sunday (1970-01-01 was a Thursday)
    return d - wd
def berlin_offset(ts):
    y = civil(ts // 86400)[0]
    start = last_sunday(y, 3) * 86400 + 3600; end = last_sunday(y, 10) * 86400 + 3600
    return 7200 if start <= ts < end else 3600
def fmt(ts, off):
    loc = ts + off; dd, s = divmod(loc, 86400); y, m, d = civil(dd)
    sign = "+" if off >= 0 else "-"; a = abs(off)
    return f"{y:04d}-{m:02d}-{d:02d}T{s//3600:02d}:{s%3600//60:02d}:{s%60:02d}{sign}{a//3600:02d}:{a%3600//60:02d}"
def work(rng):
    bad = []; n = 0
    for ts in range(*rng):
        off = [0, 3600, 7200, -36000, 20700, 50400, -3600][(ts // 3600) % 7]
        s = fmt(ts, off); lt = (ts + berlin_offset(ts)) % 86400
        for div, tgt in (("Strom", 0), ("Gas", 21600)):
            r = is_xtag_limit(s, div); n += 1
            if r.format_constraint_fulfilled != (lt == tgt): bad.append((s, div, r))
    return n, bad[:5]
if __name__ == "__main__":
    a = days(1996, 1, 1) * 86400; b = days(2038, 1, 1) * 86400
    print((b - a) // 3600)
    step = (b - a) // 64 // 3600 * 3600
    chunks = [(a + i * step, min(b, a + (i + 1) * step), 3600) for i in range(65)]
    t = time.time()
    with Pool(16) as p: res = p.map(work, chunks)
    print(sum(r[0] for r in res), [x for r in res for x in r[1]][:5], time.time() - t)
