import asyncio, warnings, logging, random, sys, collections
from contextvars import ContextVar
warnings.simplefilter("ignore"); logging.disable(logging.CRITICAL)
import inject
import ahbicht.content_evaluation
from ahbicht.content_evaluation.evaluationdatatypes import EvaluatableData, EvaluatableDataProvider
from ahbicht.content_evaluation.rc_evaluators import ContentEvaluationResultBasedRcEvaluator
from ahbicht.content_evaluation.fc_evaluators import ContentEvaluationResultBasedFcEvaluator
from ahbicht.expressions.hints_provider import ContentEvaluationResultBasedHintsProvider
from ahbicht.expressions.package_expansion import ContentEvaluationResultBasedPackageResolver
from ahbicht.content_evaluation.token_logic_provider import SingletonTokenLogicProvider, TokenLogicProvider
from ahbicht.models.content_evaluation_result import ContentEvaluationResult, ContentEvaluationResultSchema
from ahbicht.models.condition_nodes import ConditionFulfilledValue as C, EvaluatedFormatConstraint as E
from ahbicht.expressions.expression_resolver import parse_expression_including_unresolved_subexpressions as pr
from ahbicht.expressions.ahb_expression_evaluation import evaluate_ahb_expression_tree
from efoli import EdifactFormat, EdifactFormatVersion
F_,V_=EdifactFormat.UTILMD, EdifactFormatVersion.FV2210
delays=[]; di=[0]
async def pause():
    n=delays[di[0]%len(delays)] if delays else 0; di[0]+=1
    for _ in range(n): await asyncio.sleep(0)
class Rc(ContentEvaluationResultBasedRcEvaluator):
    async def evaluate_single_condition(self,k,evaluatable_data,context=None):
        await pause(); return await super().evaluate_single_condition(k,evaluatable_data,context)
class Fc(ContentEvaluationResultBasedFcEvaluator):
    async def evaluate_single_format_constraint(self,k):
        await pause(); r=await super().evaluate_single_format_constraint(k); await pause(); return r
class Hp(ContentEvaluationResultBasedHintsProvider):
    async def get_hint_text(self,k):
        await pause(); return await super().get_hint_text(k)
class Pr(ContentEvaluationResultBasedPackageResolver):
    async def get_condition_expression(self,k):
        await pause(); return await super().get_condition_expression(k)
cv=ContextVar("cer",default=None)
def configure(b):
    ev=[Rc(),Fc(),Hp(),Pr()]
    for e in ev: e.edifact_format=F_; e.edifact_format_version=V_
    b.bind(TokenLogicProvider, SingletonTokenLogicProvider(ev))
    b.bind_to_provider(EvaluatableDataProvider, lambda: EvaluatableData(body=ContentEvaluationResultSchema().dump(cv.get()), edifact_format=F_, edifact_format_version=V_))
inject.clear_and_configure(configure)
EXPRS=["Muss [1] U [2][901] Soll [3] O [4] Kann [501]","X ([1] X [2]) U [7P][902]","Muss [7P] U [501] Soll [8P]","Kann [1][901] U [2][902] U [502]"]
async def one(expr,cer):
    cv.set(cer)
    t=await pr(expr,resolve_packages=True)
    return await evaluate_ahb_expression_tree(t)
async def main():
    global delays
    r=random.Random(1); bad=0
    for i in range(150):
        jobs=[]
        for j in range(r.randint(2,5)):
            cer=ContentEvaluationResult(hints={"501":f"h501-{j}","502":f"h502-{j}"},format_constraints={"901":E(r.random()<.5,None),"902":E(r.random()<.5,None)},requirement_constraints={k:r.choice([C.FULFILLED,C.UNFULFILLED,C.UNKNOWN]) for k in "12345"},packages={"7P":r.choice(["[1]O[2]","[3]U[4]"]),"8P":"[5]"})
            for f in cer.format_constraints.values():
                if not f.format_constraint_fulfilled: f.error_message=f"err-{j}"
            jobs.append((r.choice(EXPRS),cer))
        delays=[]; di[0]=0
        base=[await asyncio.create_task(one(e,c)) for e,c in jobs]
        delays=[r.randint(0,4) for _ in range(r.randint(3,30))]; di[0]=0
        got=await asyncio.gather(*[one(e,c) for e,c in jobs])
        if list(got)!=base: bad+=1; print("DIFF",jobs,got,base)
    print("bad",bad)
asyncio.run(main())
