import asyncio, warnings, logging, random
warnings.simplefilter("ignore"); logging.disable(logging.CRITICAL)
import inject
import ahbicht.content_evaluation
from ahbicht.content_evaluation.evaluationdatatypes import EvaluatableData, EvaluatableDataProvider
from ahbicht.content_evaluation.token_logic_provider import SingletonTokenLogicProvider, TokenLogicProvider
from ahbicht.content_evaluation.fc_evaluators import FcEvaluator
from ahbicht.content_evaluation.rc_evaluators import RcEvaluator
from ahbicht.expressions.hints_provider import HintsProvider
from ahbicht.expressions.package_expansion import PackageResolver
from ahbicht.models.mapping_results import PackageKeyConditionExpressionMapping
from ahbicht.models.condition_nodes import ConditionFulfilledValue as C, EvaluatedFormatConstraint as E
from efoli import EdifactFormat, EdifactFormatVersion
from maus.models.anwendungshandbuch import AhbMetaInformation, DeepAnwendungshandbuch
from maus.models.edifact_components import *
from ahbicht.validation.validation import *
FMT, VER = EdifactFormat.UTILMD, EdifactFormatVersion.FV2210
class Sched:
    def __init__(self, delays): self.delays=list(delays); self.i=0; self.log=[]
    async def pause(self, label):
        n=self.delays[self.i % len(self.delays)] if self.delays else 0; self.i+=1
        for _ in range(n): await asyncio.sleep(0)
        self.log.append(label)
def make(sched, rc, hints, pk):
    class Rc(RcEvaluator):
        edifact_format=FMT; edifact_format_version=VER
        def _get_default_context(self): return None
    for k,v in rc.items():
        async def m(self, data, ctx, k=k, v=v):
            await sched.pause(("rc",k)); return v
        setattr(Rc, f"evaluate_{k}", m)
    class Fc(FcEvaluator):
        edifact_format=FMT; edifact_format_version=VER
    for k in range(901,910):
        async def m(self, text, k=k):
            await sched.pause(("fc",k,text))
            ok = bool(text) and (len(text)+k)%2==0
            return E(ok, None if ok else f"[{k}] rejects {text!r}")
        setattr(Fc, f"evaluate_{k}", m)
    class Hp(HintsProvider):
        edifact_format=FMT; edifact_format_version=VER
        async def get_hint_text(self, key):
            await sched.pause(("hint",key)); return hints.get(key)
    class Pr(PackageResolver):
        edifact_format=FMT; edifact_format_version=VER
        async def get_condition_expression(self, key):
            await sched.pause(("pkg",key)); return PackageKeyConditionExpressionMapping(edifact_format=FMT, package_key=key, package_expression=pk.get(key))
    def configure(b):
        b.bind(TokenLogicProvider, SingletonTokenLogicProvider([Rc(),Fc(),Hp(),Pr()]))
        b.bind_to_provider(EvaluatableDataProvider, lambda: EvaluatableData(body={}, edifact_format=FMT, edifact_format_version=VER))
    inject.clear_and_configure(configure)
def ahb():
    des=[DataElementFreeText(discriminator=f"D{i}", ahb_expression=f"Muss [1][90{1+i%3}] U [50{1+i%2}] Soll [2][90{2+i%3}]", entered_input="x"*i, data_element_id="1234") for i in range(6)]
    return DeepAnwendungshandbuch(meta=AhbMetaInformation(pruefidentifikator="12345"), lines=[SegmentGroup(discriminator="G", ahb_expression="Muss[1P]", segments=[Segment(discriminator="S", ahb_expression="X", data_elements=des[:3]),Segment(discriminator="S2", ahb_expression="X[1]", data_elements=des[3:])])])
def run(delays):
    s=Sched(delays); make(s, {"1":C.FULFILLED,"2":C.FULFILLED}, {"501":"h1","502":"h2"}, {"1P":"[1]U[2]"})
    r=asyncio.run(validate_deep_anwendungshandbuch(ahb()))
    return [(x.discriminator, str(x.validation_result.requirement_validation), getattr(x.validation_result,"format_validation_fulfilled",None), getattr(x.validation_result,"format_error_message",None), x.validation_result.hints) for x in r], s.log
base,_=run([])
rnd=random.Random(1)
for t in range(200):
    d=[rnd.randint(0,5) for _ in range(rnd.randint(1,40))]
    got,log=run(d)
    if got!=base: print("DIFF",d,got); break
else: print("all equal", base[2:4], log[:6])
