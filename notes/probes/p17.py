import asyncio, warnings, logging, random, sys, collections, json
warnings.simplefilter("ignore"); logging.disable(logging.CRITICAL)
import ahbicht.content_evaluation
from p4 import setup, ContentEvaluationResult, C, E
exec(open("p3.py").read().split("bad=0;")[0].split("import ahbicht.content_evaluation")[1])
from ahbicht.expressions.expression_resolver import parse_expression_including_unresolved_subexpressions as pr
from ahbicht.expressions.condition_expression_parser import extract_categorized_keys as ex
from ahbicht.json_serialization.tree_schema import TreeSchema
from ahbicht.models.categorized_key_extract import CategorizedKeyExtractSchema
r=random.Random(int(sys.argv[1])); cnt=collections.Counter()
def cat(k):
    k=int(k)
    return "rc" if 1<=k<=499 or 2000<=k<=2499 else "hint" if 500<=k<=900 else "fc" if 901<=k<=999 else None
def g(d,lo=1,hi=2600):
    if d==0 or r.random()<0.3:
        x=r.random()
        if x<0.75: return ("atom","condition",str(r.choice([0,1,499,500,900,901,999,1000,1999,2000,2499,2500]) if r.random()<0.15 else r.randint(lo,hi)))
        if x<0.9: return ("atom","package",f"{r.randint(1,20)}P")
        return ("atom","time_condition",f"UB{r.randint(1,3)}")
    return ("op",r.choice(list(PREC)),[g(d-1,lo,hi) for _ in range(r.randint(2,3))])
def atoms(n,acc):
    if n[0]=="atom": acc.append(n)
    else:
        for c in n[2]: atoms(c,acc)
    return acc
async def main():
    ts=TreeSchema(); ks=CategorizedKeyExtractSchema()
    for i in range(int(sys.argv[2])):
        a=g(r.randint(0,3)); b=g(r.randint(0,2)); sa=render(r,a); sb=render(r,b)
        op=r.choice(["U","O","X","∧",""]); s=f"({sa}){op}({sb})"
        async def E_(x):
            try: return await ex(x)
            except ValueError as e: return "REJECT"
        ea,eb,es=await E_(sa),await E_(sb),await E_(s)
        al=atoms(a,[])+atoms(b,[])
        bad_range=any(n[1]=="condition" and cat(n[2]) is None for n in al)
        if bad_range:
            ok = es=="REJECT"; cnt["reject"]+=1
        else:
            exp={c:sorted({n[2] for n in al if n[1]=="condition" and cat(n[2])==c},key=int) for c in("rc","hint","fc")}
            ok = es!="REJECT" and es.requirement_constraint_keys==exp["rc"] and es.hint_keys==exp["hint"] and es.format_constraint_keys==exp["fc"] and set(es.package_keys)=={n[2] for n in al if n[1]=="package"} and set(es.time_condition_keys)=={n[2] for n in al if n[1]=="time_condition"} and es==ea+eb
            ok = ok and ks.loads(ks.dumps(es))==es
            cnt["extract"]+=1
        t=await pr(s,replace_time_conditions=r.random()<0.5)
        ok = ok and ts.load(ts.dump(t))==t and ts.loads(ts.dumps(t))==t
        if not ok: cnt["BAD"]+=1; print("BAD",s,es)
    print(cnt)
asyncio.run(main())
