import asyncio, warnings, logging
warnings.simplefilter("ignore"); logging.disable(logging.CRITICAL)
import inject
import ahbicht.content_evaluation
from p4 import setup, ContentEvaluationResult, C, E
from maus.models.anwendungshandbuch import AhbMetaInformation, DeepAnwendungshandbuch
from maus.models.edifact_components import *
from ahbicht.validation.validation import *
cer = ContentEvaluationResult(hints={"501":"h501"}, format_constraints={"901":E(True),"902":E(False,"e902")}, requirement_constraints={"1":C.FULFILLED,"2":C.UNFULFILLED,"3":C.UNKNOWN}, packages={})
setup(cer)
def ahb(soll):
    return DeepAnwendungshandbuch(meta=AhbMetaInformation(pruefidentifikator="12345"), lines=[SegmentGroup(discriminator="G", ahb_expression=f"{soll}[1]", segments=[Segment(discriminator="S", ahb_expression=f"{soll}", data_elements=[DataElementFreeText(discriminator="D", ahb_expression=f"{soll}[1]", entered_input="x", data_element_id="1234"), DataElementValuePool(discriminator="V", data_element_id="0001", entered_input="A", value_pool=[ValuePoolEntry(qualifier="A", meaning="a", ahb_expression="X[2]"),ValuePoolEntry(qualifier="B", meaning="b", ahb_expression="X[2]")])])])])
for soll, flag in [("Soll",False),("Kann",False),("Soll",True),("Muss",True)]:
    r = asyncio.run(validate_deep_anwendungshandbuch(ahb(soll), soll_is_required=flag))
    print(soll, flag, [(x.discriminator, str(x.validation_result.requirement_validation)) for x in r])
