import warnings, logging
warnings.simplefilter("ignore"); logging.disable(logging.CRITICAL)
import ahbicht.content_evaluation
from ahbicht.content_evaluation.german_strom_and_gas_tag import *
def t(f,*a):
    try: return f(*a)
    except BaseException as e: return f"!!! {type(e).__name__}: {e}"
for s in ["2022-01-01T12:00:00+00:00","2022-01-01T00:00:00+00:00","2022-01-01T00:00:00Z","2022-01-01T01:00:00+01:00","2022-01-01T12:34:56Z", "2022-01-01T12:34:56-00:00","0001-01-01T00:00:00+05:00","9999-12-31T23:59:59-05:00","0001-01-01T00:00:00+00:00","9999-12-31T23:59:59+00:00","Z","ZZ","2022-01-01T00:00:00ZZ","2022-01-01 00:00:00+01:00","20220101T000000+0100","2022-W01-1T00:00:00+01:00", "2022-01-01T00:00:00+01:00:30","2022-01-01T00:00:00.5+01:00", "2022-01-01T00:00:00,5+01:00","2022-01-01T00+01:00","2022-01-01T24:00:00+01:00","2022-01-01", "\x00", "2022-01-01T00:00:00+24:00","2022-01-01T00:00:00+23:59","٢٠٢٢-01-01T00:00:00+01:00"]:
    print(repr(s).ljust(36), "931:", str(t(has_no_utc_offset,s))[:110])
    print(" "*36, "932:", str(t(is_xtag_limit,s,"Strom"))[:110])
