#!/usr/bin/env python3
"""Regenerates MANIFEST.json from vlib/props/*.py (claimed) and properties.jsonl (everything else -> not_applicable)."""
import importlib
import json
import os
import sys

ROOT = os.path.dirname(os.path.dirname(os.path.abspath(__file__)))
sys.path.insert(0, ROOT)

props = [json.loads(line) for line in open(os.path.join(ROOT, "properties.jsonl"), encoding="utf-8")]
checks, not_applicable = [], []
for prop in props:
    pid = prop["id"]
    path = os.path.join(ROOT, "vlib", "props", f"{pid.lower()}.py")
    if not os.path.exists(path):
        not_applicable.append({"property_id": pid, "reason": "check not built yet (planned in DESIGN.md section 4); nothing is claimed for it"})
        continue
    meta = {}
    src = open(path, encoding="utf-8").read()
    # read the MANIFEST dict literal of the module without importing ahbicht
    ns = {}
    start = src.index("MANIFEST = {")
    depth = 0
    for i in range(start + len("MANIFEST = "), len(src)):
        if src[i] == "{":
            depth += 1
        elif src[i] == "}":
            depth -= 1
            if depth == 0:
                end = i + 1
                break
    exec(src[start:end], ns)  # pylint:disable=exec-used
    meta = ns["MANIFEST"]
    checks.append(
        {
            "property_id": pid,
            "quick_cmd": f"./check {pid} --tier quick",
            "thorough_cmd": f"./check {pid} --tier thorough",
            "evidence_file": f"/verif/evidence/{pid}.json",
            "replay_cmd_template": f"./check {pid} --replay {{path}}",
            "engine": "pbt-runner",
            "level_claimed": {"category": meta.get("category", "exploration"), "text": meta["text"], "design_ref": meta.get("design_ref", f"DESIGN.md section 4, {pid}")},
            "level_note": meta["note"],
            "technique": meta["technique"],
        }
    )

manifest = {
    "version": 1,
    "setup_cmd": "sh /verif/setup.sh",
    "hooks": {
        "guard": "AHBICHT_VERIF",
        "enable": "no source hooks exist; checks import /repo/src as it is (the guard name is reserved, unused)",
        "baseline_off_cmd": "cd /repo && /venv/bin/python -m pytest -ra -q -p no:cacheprovider --timeout=900 --continue-on-collection-errors",
        "source_commits": [],
        "add_only": True,
    },
    "engines": [
        {
            "name": "pbt-runner",
            "path": "/verif/vlib/runner.py",
            "serves_properties": [c["property_id"] for c in checks],
            "kind_free_text": "Hypothesis 6.168 strategies / rule-based state machines and complete enumerations, sharded over up to 16 fresh processes, each case judged by an independent reference oracle (vlib/ref.py) or a metamorphic/differential relation; shrunk failures become JSON replay files",
        }
    ],
    "checks": checks,
    "notes": "Every check: ./check <ID> --tier quick|thorough; VERIF_SEED selects the Hypothesis seeds (seed*1000+shard). Exit 0 held, 1 VIOLATION, 2 harness error. See DESIGN.md.",
    "not_applicable": not_applicable,
}
with open(os.path.join(ROOT, "MANIFEST.json"), "w", encoding="utf-8") as handle:
    json.dump(manifest, handle, indent=1, ensure_ascii=False)
    handle.write("\n")
print(f"{len(checks)} checks, {len(not_applicable)} not_applicable")
