#!/bin/sh
# regression over all seeded changes: every one must be caught (exit 1) by the quick check of its property
cd "$(dirname "$0")/.." || exit 2
missed=0
for dir in seeded/*/; do
    name=$(basename "$dir")
    out=$(tools/seeded.py "$name" --no-confirm 2>&1 | tail -1)
    case "$out" in
        *"exit 1"*) echo "caught  $name  $(echo "$out" | cut -c1-150)";;
        *) echo "MISSED  $name  $out"; missed=$((missed+1));;
    esac
done
echo "missed: $missed"
[ "$missed" -eq 0 ]
