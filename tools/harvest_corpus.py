#!/usr/bin/env python3
"""
Copies the (shrunk) failing case that a check found for a seeded change into corpus/<ID>/seed_<name>.json, so that
the seconds-long corpus replay at the start of every run re-executes it (it passes on a tree where the property holds).
"""
import glob
import json
import os
import re

ROOT = os.path.dirname(os.path.dirname(os.path.abspath(__file__)))
added = 0
for path in sorted(glob.glob(os.path.join(ROOT, "seeded", "*", "meta.json"))):
    name = os.path.basename(os.path.dirname(path))
    meta = json.load(open(path, encoding="utf-8"))
    for key, value in meta.get("detection", {}).items():
        check = key.split(":")[0]
        found = re.search(r"replay=(\S+)", value.get("first_violation", ""))
        if not (value.get("caught") and found and os.path.exists(found.group(1))):
            continue
        doc = json.load(open(found.group(1), encoding="utf-8"))
        if len(json.dumps(doc["case"])) > 20000:
            continue
        target = os.path.join(ROOT, "corpus", check, f"seed_{name}.json")
        if os.path.exists(target):
            continue
        os.makedirs(os.path.dirname(target), exist_ok=True)
        json.dump({"stage": doc["stage"], "case": doc["case"], "shard": doc.get("shard", 0),
                   "note": f"failing case found for the seeded change {name} ({doc['clause']}); passes where the property holds"},
                  open(target, "w", encoding="utf-8"), ensure_ascii=False, indent=1)
        added += 1
print("added", added)
