#!/usr/bin/env python3
"""
Confirms a seeded change (/verif/seeded/<name>/: patch.diff, demo.py, meta.json) and runs checks against it.

  tools/seeded.py <name> [--checks C01,C05] [--tier quick] [--no-confirm]

In a scratch git worktree of /repo's HEAD - or of the commit the change was written against (meta.json: base) if it no
longer applies to HEAD - (removed afterwards, /repo itself is never touched):
  1. the demonstration passes (exit 0) on the unchanged tree,
  2. the patch applies, the repository's test suite still passes with it,
  3. the demonstration fails (exit != 0) on the changed tree,
  4. each requested check (default: the one of the property the change breaks) is run against the changed tree with
     VERIF_SELFTEST=1 VERIF_SUT_SRC=<worktree>/src; exit code 1 = caught.
The outcome is recorded in meta.json under "confirmed" / "detection".
"""
import argparse
import json
import os
import subprocess
import sys
import tempfile
import time

ROOT = os.path.dirname(os.path.dirname(os.path.abspath(__file__)))


def run(cmd, **kwargs):
    return subprocess.run(cmd, capture_output=True, text=True, **kwargs)


def main():
    parser = argparse.ArgumentParser()
    parser.add_argument("name")
    parser.add_argument("--checks", default=None)
    parser.add_argument("--tier", default="quick")
    parser.add_argument("--no-confirm", action="store_true")
    parser.add_argument("--seed", default="1")
    args = parser.parse_args()
    directory = os.path.join(ROOT, "seeded", args.name)
    meta_path = os.path.join(directory, "meta.json")
    meta = json.load(open(meta_path, encoding="utf-8"))
    patch = os.path.join(directory, "patch.diff")
    demo = os.path.join(directory, "demo.py")
    checks = args.checks.split(",") if args.checks else [meta["property"]]
    wt = tempfile.mkdtemp(prefix="ahb-seeded-")
    os.rmdir(wt)
    # the scratch tree is /repo's HEAD if the change still applies there, else the commit it was written against
    base = "HEAD"
    subprocess.run(["git", "-C", "/repo", "worktree", "add", "--detach", "-q", wt, "HEAD"], check=True)
    if run(["git", "-C", wt, "apply", "--check", patch]).returncode != 0 and meta.get("base"):
        subprocess.run(["git", "-C", "/repo", "worktree", "remove", "--force", wt], check=False)
        base = meta["base"]
        subprocess.run(["git", "-C", "/repo", "worktree", "add", "--detach", "-q", wt, base], check=True)
        print(f"(the change no longer applies to HEAD; using its base {base[:8]})")
    status = 0
    try:
        env = dict(os.environ, PYTHONPATH=os.path.join(wt, "src"), PYTHONHASHSEED="0")
        if not args.no_confirm:
            clean = run(["/venv/bin/python", demo], cwd=wt, env=env)
            applied = run(["git", "-C", wt, "apply", patch])
            if applied.returncode != 0:
                print("patch does not apply:", applied.stderr)
                return 2
            tests = run(["/venv/bin/python", "-m", "pytest", "-q", "-p", "no:cacheprovider"], cwd=wt, env=env)
            summary = (tests.stdout.strip().splitlines() or ["?"])[-1]
            broken = run(["/venv/bin/python", demo], cwd=wt, env=env)
            meta["confirmed"] = {
                "demo_on_unchanged_tree_exit": clean.returncode,
                "test_suite_with_change": summary,
                "demo_on_changed_tree_exit": broken.returncode,
                "demo_output_on_changed_tree": (broken.stdout + broken.stderr).strip()[-400:],
                "ok": clean.returncode == 0 and broken.returncode != 0 and " passed" in summary and "failed" not in summary,
            }
            print(f"confirm: demo unchanged={clean.returncode} changed={broken.returncode}; tests: {summary}")
            if not meta["confirmed"]["ok"]:
                status = 3
        else:
            subprocess.run(["git", "-C", wt, "apply", patch], check=True)
        detection = meta.setdefault("detection", {})
        for check in checks:
            check_env = dict(os.environ, VERIF_SELFTEST="1", VERIF_SUT_SRC=os.path.join(wt, "src"), VERIF_SEED=args.seed)
            start = time.time()
            res = run([os.path.join(ROOT, "check"), check, "--tier", args.tier], cwd=ROOT, env=check_env)
            lines = [line for line in res.stdout.splitlines() if line.startswith("VIOLATION") or line.startswith("  clause=")]
            detection[f"{check}:{args.tier}:seed{args.seed}"] = {
                "exit": res.returncode,
                "caught": res.returncode == 1,
                "wall_s": round(time.time() - start, 1),
                "first_violation": " ".join(lines[:2])[:500],
                "tree": base,
            }
            print(f"{check} ({args.tier}): exit {res.returncode} in {time.time() - start:.0f}s  {' '.join(lines[:2])[:300]}")
            if res.returncode == 2:
                print(res.stdout[-1500:])
    finally:
        subprocess.run(["git", "-C", "/repo", "worktree", "remove", "--force", wt], check=False)
    json.dump(meta, open(meta_path, "w", encoding="utf-8"), indent=1, ensure_ascii=False)
    return status


if __name__ == "__main__":
    sys.exit(main())
