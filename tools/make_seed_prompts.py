#!/usr/bin/env python3
"""
Writes the prompts for one round of seeded changes (DESIGN.md 9.5) and creates the scratch worktrees.

  tools/make_seed_prompts.py <PREFIX> <focus-file>

For every property Cnn: /tmp/seed/<PREFIX>nn (git worktree of /repo HEAD) and /tmp/seed/<PREFIX>nn.prompt.txt, built
from tools/seed_prompt.template, the text of the property (nothing else from /verif) and one-line descriptions of the
changes already seeded for that property.  <focus-file> holds the round's extra paragraph (what kind of defect to aim for).
"""
import glob
import json
import os
import subprocess
import sys

ROOT = os.path.dirname(os.path.dirname(os.path.abspath(__file__)))
prefix, focus_file = sys.argv[1], sys.argv[2]
focus = open(focus_file, encoding="utf-8").read().strip()
template = open(os.path.join(ROOT, "tools", "seed_prompt.template"), encoding="utf-8").read()
os.makedirs("/tmp/seed", exist_ok=True)
for line in open(os.path.join(ROOT, "properties.jsonl"), encoding="utf-8"):
    prop = json.loads(line)
    pid = prop["id"]
    number = pid[1:]
    anchors = prop["anchors"]
    text = (
        f"PROPERTY {pid}: {prop['title']}\n\nStatement: {prop['statement']}\n\nQuantified over: {prop['quantifier']['text']}\n\n"
        f"Observable at: {', '.join(anchors.get('observe_at', []))}\nAnchored in files: {', '.join(anchors.get('files', []))}\n"
    )
    earlier = []
    for meta_path in sorted(glob.glob(os.path.join(ROOT, "seeded", f"{pid}-*", "meta.json"))):
        earlier.append("  - " + json.load(open(meta_path, encoding="utf-8"))["summary"][:300])
    if earlier:
        text += (
            f"\nIMPORTANT - {len(earlier)} changes were already seeded for this property; do NOT repeat them or close variants "
            "(different site AND different mechanism, please):\n" + "\n".join(earlier) + "\n"
        )
    text += focus + "\n"
    worktree = f"/tmp/seed/{prefix}{number}"
    if not os.path.isdir(worktree):
        subprocess.run(["git", "-C", "/repo", "worktree", "add", "--detach", "-q", worktree, "HEAD"], check=True)
    prompt = template.replace("__WT__", worktree).replace("__PROPERTY__", text).replace("__ID__", pid)
    with open(f"/tmp/seed/{prefix}{number}.prompt.txt", "w", encoding="utf-8") as handle:
        handle.write(prompt)
    print(worktree)
