#!/usr/bin/env python3
"""
Self-test helper (DESIGN.md 2.7): run a check against a deliberately broken scratch copy of ahbicht.

  tools/mutant.py [--patch FILE | --file REL --old TEXT --new TEXT]... [--pytest] -- ./check C03 --tier quick

Creates a git worktree of /repo's HEAD under /tmp, applies the edit(s), optionally runs the repository's test suite
there (to show the change passes the existing tests), runs the command with VERIF_SELFTEST=1 VERIF_SUT_SRC=<wt>/src,
prints both exit codes and removes the worktree again.  Never touches /repo's working tree.
"""
import argparse
import os
import subprocess
import sys
import tempfile


def main():
    parser = argparse.ArgumentParser()
    parser.add_argument("--patch", action="append", default=[])
    parser.add_argument("--file", action="append", default=[])
    parser.add_argument("--old", action="append", default=[])
    parser.add_argument("--new", action="append", default=[])
    parser.add_argument("--pytest", action="store_true")
    parser.add_argument("--worktree-of", default="HEAD", help="commit of /repo to start from (default HEAD)")
    parser.add_argument("cmd", nargs=argparse.REMAINDER)
    args = parser.parse_args()
    cmd = args.cmd[1:] if args.cmd and args.cmd[0] == "--" else args.cmd
    wt = tempfile.mkdtemp(prefix="ahb-mut-")
    os.rmdir(wt)
    subprocess.run(["git", "-C", "/repo", "worktree", "add", "--detach", "-q", wt, args.worktree_of], check=True)
    code = 2
    try:
        for patch in args.patch:
            subprocess.run(["git", "-C", wt, "apply", os.path.abspath(patch)], check=True)
        for rel, old, new in zip(args.file, args.old, args.new):
            path = os.path.join(wt, rel)
            text = open(path, encoding="utf-8").read()
            if text.count(old) != 1:
                print(f"mutant: {old!r} occurs {text.count(old)} times in {rel}", file=sys.stderr)
                return 2
            open(path, "w", encoding="utf-8").write(text.replace(old, new))
        env = dict(os.environ, VERIF_SELFTEST="1", VERIF_SUT_SRC=os.path.join(wt, "src"))
        if args.pytest:
            test_env = dict(os.environ, PYTHONPATH=os.path.join(wt, "src"))
            res = subprocess.run(
                ["/venv/bin/python", "-m", "pytest", "-q", "-p", "no:cacheprovider"],
                cwd=wt, env=test_env, capture_output=True, text=True,
            )  # fmt: skip
            print("mutant: repository test suite:", res.stdout.strip().splitlines()[-1] if res.stdout.strip() else res.stderr[-300:])
        if cmd:
            res = subprocess.run(cmd, cwd="/verif", env=env)
            code = res.returncode
            print(f"mutant: check exit code {code}")
    finally:
        subprocess.run(["git", "-C", "/repo", "worktree", "remove", "--force", wt], check=False)
    return code


if __name__ == "__main__":
    sys.exit(main())
