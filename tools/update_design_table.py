#!/usr/bin/env python3
"""replaces the table of seeded changes in DESIGN.md (section 9.5) by the output of tools/seed_table.py"""
import os
import subprocess
import sys

ROOT = os.path.dirname(os.path.dirname(os.path.abspath(__file__)))
path = os.path.join(ROOT, "DESIGN.md")
lines = open(path, encoding="utf-8").read().split("\n")
start = next(i for i, line in enumerate(lines) if line.startswith("| seeded change |"))
end = start
while end < len(lines) and lines[end].startswith("|"):
    end += 1
table = subprocess.run([sys.executable, os.path.join(ROOT, "tools", "seed_table.py")], capture_output=True, text=True, check=True).stdout.rstrip("\n").split("\n")
lines[start:end] = table
open(path, "w", encoding="utf-8").write("\n".join(lines))
print(f"replaced {end - start} table lines by {len(table)}")
