#!/usr/bin/env python3
"""
Regression over a sample of the seeded changes (the full tools/seeded_all.sh takes hours): for every property `--per-property`
seeded changes are drawn (random.Random(--seed)), each is applied in a scratch worktree and the quick check of its property
must catch it (exit 1).  Prints one line per seed and "missed: N"; exit status 1 if any was missed.
"""
import argparse
import glob
import json
import os
import random
import subprocess
import sys

ROOT = os.path.dirname(os.path.dirname(os.path.abspath(__file__)))


def main():
    parser = argparse.ArgumentParser()
    parser.add_argument("--per-property", type=int, default=3)
    parser.add_argument("--seed", type=int, default=1)
    parser.add_argument("--from-property", default="C01", help="skip the properties before this one (to resume)")
    args = parser.parse_args()
    by_property = {}
    for path in sorted(glob.glob(os.path.join(ROOT, "seeded", "*", "meta.json"))):
        meta = json.load(open(path, encoding="utf-8"))
        by_property.setdefault(meta["property"], []).append(os.path.basename(os.path.dirname(path)))
    rng = random.Random(args.seed)
    missed = 0
    for prop in sorted(by_property):
        chosen = sorted(rng.sample(by_property[prop], min(args.per_property, len(by_property[prop]))))
        if prop < args.from_property:
            continue
        for name in chosen:
            res = subprocess.run([sys.executable, os.path.join(ROOT, "tools", "seeded.py"), name, "--no-confirm"],
                                 capture_output=True, text=True, check=False, cwd=ROOT)  # fmt: skip
            last = (res.stdout.strip().splitlines() or ["?"])[-1]
            caught = "exit 1" in last
            missed += not caught
            print(("caught  " if caught else "MISSED  ") + name + "  " + last[:140], flush=True)
    print(f"missed: {missed}")
    return 1 if missed else 0


if __name__ == "__main__":
    sys.exit(main())
