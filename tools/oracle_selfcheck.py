#!/venv/bin/python
"""
Cross-check of the reference models in vlib/ref.py against the literals of the repository's own unit tests
(DESIGN.md section 5: "the reference must reproduce the unit tests' literals before it is allowed to judge anything").

The parametrize marks of the test functions are read (nothing is executed through pytest), and every literal is put to
the reference model that the checks use as their oracle:

  test_condition_parser                  -> recogniser (accept / reject), matcher, precedence splitting (C01, C02)
  test_requirement_constraint_expr...    -> four-valued evaluator ref.state, structural validity, direct fc reading
                                            (C04, C05, C06, C07)
  test_format_constraint_expr...         -> Boolean evaluation (C08), 93x verdicts via the integer EU-DST rule (C20)
  test_validity_check                    -> structural validity of AHB expressions (C06)
  test_ahb_expression_evaluation         -> part selection (C09)
  test_categorized_key_extraction        -> key ranges (C18)
  test_german_strom_and_gas_tag          -> EU-DST rule (C20)
  test_condition_nodes                   -> tables AND / OR / XOR (C03)

Exit 0 if the reference agrees with every literal it could be applied to, 1 otherwise.  It prints how many literals
were compared per group and which ones were skipped (and why).  Not a property check: it tests the oracle, not ahbicht.
"""
import asyncio
import itertools
import os
import re
import sys

ROOT = os.path.dirname(os.path.dirname(os.path.abspath(__file__)))
sys.path.insert(0, ROOT)
sys.path.insert(0, "/repo")
os.environ.setdefault("VERIF_SHARD", "0")

from vlib import ref, sut  # noqa: E402  pylint:disable=wrong-import-position

from ahbicht.expressions.condition_expression_parser import parse_condition_expression_to_tree  # noqa: E402
from ahbicht.models.condition_nodes import ConditionFulfilledValue as cfv  # noqa: E402

LETTER = {cfv.FULFILLED: "F", cfv.UNFULFILLED: "U", cfv.UNKNOWN: "K", cfv.NEUTRAL: "N"}
problems, counts, skipped = [], {}, []


def params(func):
    """[(names, [values...])] of all parametrize marks of a test function"""
    out = []
    for mark in getattr(func, "pytestmark", []):
        if mark.name != "parametrize":
            continue
        names = [n.strip() for n in mark.args[0].replace("\n", " ").split(",")] if isinstance(mark.args[0], str) else list(mark.args[0])
        rows = []
        for item in mark.args[1]:
            values = getattr(item, "values", item)
            if len(names) == 1 and not (isinstance(values, tuple) and hasattr(item, "values")):
                values = (values,)
            rows.append(tuple(values))
        out.append((names, rows))
    return out


def count(group, n=1):
    counts[group] = counts.get(group, 0) + n


def problem(group, text):
    problems.append(f"{group}: {text}")


def ast_of(expression):
    tree = parse_condition_expression_to_tree(expression)
    ast = ref.tree_to_ast(tree)
    if ast is None or not ref.match(tree, ast):
        problem("matcher", f"tree of {expression!r} is not matched by its own AST")
    return ast


# ------------------------------------------------------------------------------------------ condition parser
def check_condition_parser():
    from unittests import test_condition_parser as module

    cls = module.TestConditionParser
    for name in dir(cls):
        func = getattr(cls, name)
        for names, rows in params(func):
            if names == ["expression", "expected_tree"]:
                for expression, tree in rows:
                    count("recogniser-accepts")
                    if not ref.accepts_condition(expression):
                        problem("recogniser", f"rejects {expression!r}, which the unit tests parse")
                    ast = ref.tree_to_ast(tree)
                    count("matcher")
                    if ast is None or not ref.match(tree, ast):
                        problem("matcher", f"expected tree of {expression!r} is not matched by the AST read from it")
                        continue
                    # bracket-free literals: the reference grouping by precedence must give the literal tree
                    if "(" not in expression:
                        tokens = ref.tokenize(expression)
                        if tokens is None:
                            problem("tokenizer", f"cannot tokenize {expression!r}")
                            continue
                        atoms, ops = split_tokens(tokens)
                        if atoms is not None:
                            count("precedence")
                            grouped = ref.split_by_precedence(atoms, ops)
                            if not ref.match(tree, grouped):
                                problem("precedence", f"{expression!r}: reference grouping {grouped} does not match the literal tree")
            elif names == ["expression"]:
                for (expression,) in rows:
                    if not isinstance(expression, str):
                        skipped.append(f"condition parser negative {expression!r}: not a string")
                        continue
                    count("recogniser-rejects")
                    if ref.accepts_condition(expression):
                        problem("recogniser", f"accepts {expression!r}, for which the unit tests expect SyntaxError")
            elif names == ["old_expression", "new_expression"]:
                for old, new in rows:
                    count("recogniser-accepts", 2)
                    if not (ref.accepts_condition(old) and ref.accepts_condition(new)):
                        problem("recogniser", f"rejects {old!r} or {new!r}")
                    count("matcher")
                    if not ref.match(parse_condition_expression_to_tree(new), ast_of(old)):
                        problem("matcher", f"{new!r} is not matched by the AST of {old!r}")


OPS = {"U": "and", "u": "and", "∧": "and", "O": "or", "o": "or", "∨": "or", "X": "xor", "x": "xor", "⊻": "xor"}


def split_tokens(tokens):
    """atoms / operators of a bracket-free token list in the shape split_by_precedence wants; None if not applicable"""
    atoms, ops, pending, index = [], [], None, 0
    while index < len(tokens):
        kind, value = tokens[index]
        if kind in ("lp", "rp"):
            return None, None
        if kind == "op":
            pending = OPS[value]
            index += 1
            continue
        if kind != "lb":
            return None, None
        inner = []
        index += 1
        while index < len(tokens) and tokens[index][0] != "rb":
            inner.append(tokens[index])
            index += 1
        index += 1
        if inner[0][0] == "int":
            category = ref.key_category(int(inner[0][1]))
            if category is None:
                return None, None
            atom = [category, inner[0][1]]
        elif inner[0][0] == "pkg":
            atom = ["pkg", inner[0][1], inner[1][1] if len(inner) > 1 else None]
        else:
            atom = ["time", inner[0][1]]
        if atoms:
            ops.append(pending if pending is not None else "then")
        pending = None
        atoms.append(atom)
    return atoms, ops


# ----------------------------------------------------------------------------------- requirement constraints
def check_requirement_constraints():
    from unittests import test_requirement_constraint_expression_evaluation as module

    cls = module.TestRequirementConstraintEvaluation
    assignment = {"1": "F", "2": "U", "3": "F", "4": "U", "101": "K", "102": "K"}
    for name in dir(cls):
        func = getattr(cls, name)
        for names, rows in params(func):
            if names[:2] == ["expression", "expected_resulting_conditions_fulfilled"]:
                for row in rows:
                    expression, expected = row[0], row[1]
                    ast = ast_of(expression)
                    if not ref.in_evaluation_domain(ast) or ref.validity(ast) != "valid":
                        skipped.append(f"rc literal {expression!r}: outside the evaluation domain of the reference")
                        continue
                    count("evaluator")
                    got = ref.state(ast, assignment)
                    if got != LETTER[expected]:
                        problem("evaluator", f"{expression!r}: reference {got}, unit test {LETTER[expected]} ({name})")
                    if "expected_format_constraint_expression" in names:
                        literal = row[names.index("expected_format_constraint_expression")]
                        fc_keys = ref.keys_of(ast, "fc")
                        for combo in itertools.product([True, False], repeat=len(fc_keys)):
                            truth = dict(zip(fc_keys, combo))
                            direct = ref.fc_direct(ast, assignment, truth)
                            direct = True if direct is None else direct
                            wanted = True if literal is None else ref.bool_eval(ast_of(literal), truth)
                            count("direct-fc-reading")
                            if direct != wanted:
                                problem("direct-fc-reading", f"{expression!r} under {truth}: reference {direct}, literal {literal!r} gives {wanted}")
            elif names == ["expression"] and "invalid" in name:
                for (expression,) in rows:
                    count("validity")
                    if ref.validity(ast_of(expression)) != "invalid":
                        problem("validity", f"{expression!r}: reference says {ref.validity(ast_of(expression))}, unit test expects InvalidExpressionError")


# ------------------------------------------------------------------------------------------ format constraints
def check_format_constraints():
    from unittests import test_format_constraint_expression_evaluation as module

    cls = next(getattr(module, n) for n in dir(module) if n.startswith("Test"))
    source = open(module.__file__, encoding="utf-8").read()
    for name in dir(cls):
        func = getattr(cls, name)
        for names, rows in params(func):
            if names[:2] == ["format_constraint_expression", "expected_format_constraints_fulfilled"]:
                # the fixture of that test: which keys are fulfilled is written in the test body / fixture
                fulfilled = set(re.findall(r'"(9\d\d)": EvaluatedFormatConstraint\(\s*format_constraint_fulfilled=True', source))
                unfulfilled = set(re.findall(r'"(9\d\d)": EvaluatedFormatConstraint\(\s*format_constraint_fulfilled=False', source))
                for row in rows:
                    expression, expected = row[0], row[1]
                    ast = ast_of(expression)
                    keys = ref.keys_of(ast, "fc")
                    if not set(keys) <= fulfilled | unfulfilled or set(keys) & fulfilled & unfulfilled:
                        skipped.append(f"fc literal {expression!r}: fixture values not recoverable from the source")
                        continue
                    count("boolean")
                    got = ref.bool_eval(ast, {k: k in fulfilled for k in keys})
                    if got != expected:
                        problem("boolean", f"{expression!r}: reference {got}, unit test {expected}")
            elif names[:3] == ["format_constraint_expression", "entered_input", "is_successful"]:
                for expression, entered, ok, _ in rows:
                    key = expression.strip("[]")
                    verdict = verdict_93x(key, entered)
                    if verdict is None:
                        skipped.append(f"93x literal {expression} {entered!r}: not a parseable instant for the reference")
                        continue
                    count("93x")
                    if verdict != ok:
                        problem("93x", f"{expression} on {entered!r}: reference {verdict}, unit test {ok}")


def verdict_93x(key, text):
    from datetime import datetime

    if not text:
        return False
    try:
        moment = datetime.fromisoformat(text.replace("Z", "+00:00"))
    except ValueError:
        return None
    if moment.tzinfo is None:
        return False
    ts = int(moment.timestamp())
    local = ref.german_local_seconds(ts)
    offset = int(moment.utcoffset().total_seconds())
    return {"931": offset == 0, "932": local == 0, "933": local == 0, "934": local == 21600, "935": local == 21600}[key]


def check_strom_gas():
    from unittests import test_german_strom_and_gas_tag as module

    for name in dir(module):
        cls = getattr(module, name)
        if not name.startswith("Test"):
            continue
        for fname in dir(cls):
            func = getattr(cls, fname)
            for names, rows in params(func):
                if names[0] != "dt" or len(names) != 2:
                    continue
                target = 0 if "strom" in names[1] else 21600
                for moment, expected in rows:
                    if type(moment.tzinfo).__module__.startswith("pytz"):
                        skipped.append(f"{fname} {moment!r}: constructed with a pytz zone as tzinfo (local mean time offset)")
                        continue
                    count("eu-dst-rule")
                    got = ref.german_local_seconds(int(moment.timestamp())) == target and moment.microsecond == 0
                    if got != expected:
                        problem("eu-dst-rule", f"{fname} {moment.isoformat()}: reference {got}, unit test {expected}")


# ------------------------------------------------------------------------------------------------ validity / ahb
def best_split(text):
    """the first lenient cut of an AHB expression into (indicator, condition text) parts whose parts are all acceptable"""
    for parts in ref.split_ahb_lenient(text):
        good = True
        for index, (indicator, cond) in enumerate(parts):
            blank = cond is None or not cond.strip(ref.WS_CHARS)
            if blank and index != len(parts) - 1:
                good = False
            if not blank and not ref.accepts_condition(cond):
                good = False
        if good:
            return parts
    return None


def check_validity():
    from unittests import test_validity_check as module

    cls = next(getattr(module, n) for n in dir(module) if n.startswith("Test"))
    for name in dir(cls):
        for names, rows in params(getattr(cls, name)):
            if names != ["ahb_expression", "expected_result"]:
                continue
            for expression, expected in rows:
                if not ref.accepts_ahb_lenient(expression):
                    count("ahb-recogniser")
                    if expected:
                        problem("ahb-recogniser", f"rejects {expression!r}, which the unit tests call valid")
                    continue
                parts = best_split(expression)
                verdicts = []
                for _, text in parts:
                    if text is None or not text.strip():
                        continue
                    if not ref.accepts_condition(text):
                        verdicts.append("malformed")
                    else:
                        verdicts.append(ref.validity(ast_of(ref.subst_time(text))) if "P" not in text else "has-package")
                if "has-package" in verdicts:
                    skipped.append(f"validity literal {expression!r}: contains a package")
                    continue
                count("validity-ahb")
                got = all(v == "valid" for v in verdicts)
                if got != expected:
                    problem("validity-ahb", f"{expression!r}: reference {verdicts}, unit test {expected}")


def check_ahb_selection():
    from unittests import test_ahb_expression_evaluation as module

    cls = next(getattr(module, n) for n in dir(module) if n.startswith("Test"))
    func = cls.test_evaluate_valid_ahb_expression
    for names, rows in params(func):
        if names[0] != "ahb_expression":
            continue
        # the test's mock: "odd condition_keys are True, even condition_keys are False" (see its docstring)
        assignment = {str(k): ("F" if k % 2 else "U") for k in range(1, 500)}
        for row in rows:
            expression = row[0]
            expected_indicator = row[names.index("expected_requirement_indicator")] if "expected_requirement_indicator" in names else None
            if expected_indicator is None or not ref.accepts_ahb_lenient(expression):
                skipped.append(f"ahb literal {expression!r}: no indicator literal")
                continue
            parts = []
            usable = True
            for indicator, text in best_split(expression):
                if text is None or not text.strip():
                    parts.append((indicator, None))
                    continue
                ast = ast_of(text)
                if not set(ref.keys_of(ast, "rc")) <= set(assignment) or ref.keys_of(ast, "pkg") or ref.keys_of(ast, "time"):
                    usable = False
                parts.append((indicator, ast))
            if not usable:
                skipped.append(f"ahb literal {expression!r}: keys without a fixture value / packages")
                continue
            count("part-selection")
            chosen = ref.select_part(parts, assignment)
            got = ref.normalise_indicator(parts[chosen][0])
            wanted = str(getattr(expected_indicator, "value", expected_indicator)).upper()
            if got != wanted:
                problem("part-selection", f"{expression!r}: reference selects {got}, unit test {wanted}")
            fulfilled = row[names.index("expected_requirement_constraints_fulfilled")]
            count("part-outcome")
            if ref.part_fulfilled(parts[chosen][1], assignment) is not fulfilled:
                problem("part-outcome", f"{expression!r}: reference {ref.part_fulfilled(parts[chosen][1], assignment)}, unit test {fulfilled}")


# -------------------------------------------------------------------------------------------------- key ranges
def check_key_ranges():
    from unittests import test_categorized_key_extraction as module

    cls = next(getattr(module, n) for n in dir(module) if n.startswith("Test"))
    func = cls.test_extraction_of_categorized_keys_from_condition_expression
    for names, rows in params(func):
        for row in rows:
            extract = row[-1]
            for field, category in (("requirement_constraint_keys", "rc"), ("hint_keys", "hint"), ("format_constraint_keys", "fc")):
                for key in getattr(extract, field, []):
                    count("key-ranges")
                    if ref.key_category(int(key)) != category:
                        problem("key-ranges", f"key {key}: reference {ref.key_category(int(key))}, unit test lists it under {field}")


def check_tables():
    ops = {"and": lambda a, b: a & b, "or": lambda a, b: a | b, "xor": lambda a, b: a ^ b}
    for name, func in ops.items():
        for a, b in itertools.product(LETTER, repeat=2):
            count("tables")
            try:
                real = LETTER[func(a, b)]
            except BaseException as error:  # pylint:disable=broad-except
                real = type(error).__name__
            try:
                mine = ref.TABLE[name](LETTER[a], LETTER[b])
            except BaseException as error:  # pylint:disable=broad-except
                mine = type(error).__name__
            if mine != real and not (mine is None or str(mine).endswith("Error")):
                problem("tables", f"{LETTER[a]} {name} {LETTER[b]}: reference {mine}, ahbicht {real}")


def main():
    for step in (check_condition_parser, check_requirement_constraints, check_format_constraints, check_strom_gas,
                 check_validity, check_ahb_selection, check_key_ranges, check_tables):  # fmt: skip
        try:
            step()
        except Exception as error:  # pylint:disable=broad-except
            import traceback

            traceback.print_exc()
            problem(step.__name__, f"the cross-check itself failed: {error!r}")
    for group, number in sorted(counts.items()):
        print(f"{group:22s} {number:5d} literals compared")
    print(f"skipped: {len(skipped)}")
    for line in skipped:
        print("  -", line)
    for line in problems:
        print("DISAGREEMENT", line)
    print("reference models agree with every compared unit-test literal" if not problems else f"{len(problems)} disagreements")
    return 1 if problems else 0


if __name__ == "__main__":
    sys.exit(main())
