#!/usr/bin/env python3
"""
Systematic sensitivity measurement (complements the hand-seeded changes of DESIGN.md 9.5): classical mutation operators
applied to the files the properties are anchored in.

For every sampled mutant (file, position, operator):
  1. it is applied in a scratch git worktree of /repo's HEAD (under /tmp, removed at the end),
  2. the repository's own test suite runs against it; a mutant the suite kills is of no interest here,
  3. for a survivor, the quick checks of the properties anchored in that file run against it (VERIF_SELFTEST=1); the
     first check that exits 1 "catches" it.

Results go to .work/mutation/results.jsonl (one JSON object per mutant) and a summary is printed at the end:
  tools/mutation_campaign.py [--per-file N] [--seed S] [--files f1,f2] [--limit N]
Operators: comparison swaps, and/or swaps, dropped `not`, True/False, small integer +1, `return x` -> `return None`,
removed call statements (not logging), + / - swaps.  Survivors that no check catches are listed for inspection: they are
equivalent mutants, lie outside every listed property, or point at a gap.
"""
import argparse
import ast
import json
import os
import random
import subprocess
import sys
import tempfile
import time

ROOT = os.path.dirname(os.path.dirname(os.path.abspath(__file__)))
COMPARE = {ast.Eq: "!=", ast.NotEq: "==", ast.Lt: "<=", ast.LtE: "<", ast.Gt: ">=", ast.GtE: ">", ast.Is: "is not",
           ast.IsNot: "is", ast.In: "not in", ast.NotIn: "in"}  # fmt: skip
COMPARE_TEXT = {ast.Eq: "==", ast.NotEq: "!=", ast.Lt: "<", ast.LtE: "<=", ast.Gt: ">", ast.GtE: ">=", ast.Is: "is",
                ast.IsNot: "is not", ast.In: "in", ast.NotIn: "not in"}  # fmt: skip
LOG_METHODS = {"debug", "info", "warning", "error", "exception", "log", "critical"}


def anchored_files():
    """{repo-relative file: [property ids]}"""
    out = {}
    for line in open(os.path.join(ROOT, "properties.jsonl"), encoding="utf-8"):
        prop = json.loads(line)
        for path in prop["anchors"].get("files", []):
            if path.endswith(".py") and path.startswith("src/"):
                out.setdefault(path, []).append(prop["id"])
    return out


def segment(lines, node):
    if node.lineno != node.end_lineno:
        return None
    return lines[node.lineno - 1][node.col_offset : node.end_col_offset]


def mutants_of(source):
    """[(lineno, col, end_col, replacement, operator name)] - single-line textual replacements"""
    tree = ast.parse(source)
    lines = source.splitlines()
    found = []
    docstrings = set()
    for node in ast.walk(tree):
        if isinstance(node, (ast.FunctionDef, ast.AsyncFunctionDef, ast.ClassDef, ast.Module)) and node.body:
            first = node.body[0]
            if isinstance(first, ast.Expr) and isinstance(first.value, ast.Constant) and isinstance(first.value.value, str):
                docstrings.add(id(first))
    for node in ast.walk(tree):
        if isinstance(node, ast.Compare) and len(node.ops) == 1 and node.lineno == node.end_lineno:
            op = node.ops[0]
            if type(op) in COMPARE:
                left_end = node.left.end_col_offset
                right_start = node.comparators[0].col_offset
                if node.left.end_lineno == node.lineno == node.comparators[0].lineno:
                    between = lines[node.lineno - 1][left_end:right_start]
                    text = COMPARE_TEXT[type(op)]
                    if between.strip() == text:
                        start = left_end + between.index(text)
                        found.append((node.lineno, start, start + len(text), COMPARE[type(op)], "compare"))
        elif isinstance(node, ast.BoolOp) and node.lineno == node.end_lineno and len(node.values) == 2:
            a, b = node.values
            between = lines[node.lineno - 1][a.end_col_offset : b.col_offset]
            word = "and" if isinstance(node.op, ast.And) else "or"
            if between.strip() == word:
                start = a.end_col_offset + between.index(word)
                found.append((node.lineno, start, start + len(word), "or" if word == "and" else "and", "boolop"))
        elif isinstance(node, ast.UnaryOp) and isinstance(node.op, ast.Not) and node.lineno == node.end_lineno:
            text = segment(lines, node)
            if text and text.startswith("not "):
                found.append((node.lineno, node.col_offset, node.col_offset + 4, "", "drop-not"))
        elif isinstance(node, ast.Constant) and node.lineno == node.end_lineno:
            if node.value is True or node.value is False:
                found.append((node.lineno, node.col_offset, node.end_col_offset, str(not node.value), "bool-constant"))
            elif isinstance(node.value, int) and not isinstance(node.value, bool) and 0 <= node.value <= 10000:
                found.append((node.lineno, node.col_offset, node.end_col_offset, str(node.value + 1), "int-constant"))
        elif isinstance(node, ast.Return) and node.value is not None and node.lineno == node.end_lineno:
            if not (isinstance(node.value, ast.Constant) and node.value.value is None):
                found.append((node.lineno, node.value.col_offset, node.value.end_col_offset, "None", "return-none"))
        elif isinstance(node, ast.Expr) and id(node) not in docstrings and node.lineno == node.end_lineno:
            call = node.value.value if isinstance(node.value, ast.Await) else node.value
            if isinstance(call, ast.Call):
                name = call.func.attr if isinstance(call.func, ast.Attribute) else getattr(call.func, "id", "")
                if name not in LOG_METHODS:
                    found.append((node.lineno, node.col_offset, node.end_col_offset, "pass", "drop-call"))
        elif isinstance(node, ast.BinOp) and isinstance(node.op, (ast.Add, ast.Sub)) and node.lineno == node.end_lineno:
            between = lines[node.lineno - 1][node.left.end_col_offset : node.right.col_offset]
            sign = "+" if isinstance(node.op, ast.Add) else "-"
            if between.strip() == sign:
                start = node.left.end_col_offset + between.index(sign)
                found.append((node.lineno, start, start + 1, "-" if sign == "+" else "+", "plus-minus"))
    return sorted(set(found))


def run(cmd, **kwargs):
    return subprocess.run(cmd, capture_output=True, text=True, check=False, **kwargs)


def main():
    parser = argparse.ArgumentParser()
    parser.add_argument("--per-file", type=int, default=14)
    parser.add_argument("--seed", type=int, default=1)
    parser.add_argument("--files", default=None)
    parser.add_argument("--limit", type=int, default=None)
    parser.add_argument("--out", default=os.path.join(ROOT, ".work", "mutation", "results.jsonl"))
    args = parser.parse_args()
    files = anchored_files()
    if args.files:
        files = {k: v for k, v in files.items() if k in args.files.split(",")}
    rng = random.Random(args.seed)
    plan = []
    for path, props in sorted(files.items()):
        source = open(os.path.join("/repo", path), encoding="utf-8").read()
        candidates = mutants_of(source)
        rng.shuffle(candidates)
        for mutant in candidates[: args.per_file]:
            plan.append((path, props, mutant))
    if args.limit:
        plan = plan[: args.limit]
    os.makedirs(os.path.dirname(args.out), exist_ok=True)
    done = set()
    if os.path.exists(args.out):
        for line in open(args.out, encoding="utf-8"):
            record = json.loads(line)
            done.add((record["file"], record["line"], record["col"], record["operator"]))
    worktree = tempfile.mkdtemp(prefix="ahb-mutation-")
    os.rmdir(worktree)
    subprocess.run(["git", "-C", "/repo", "worktree", "add", "--detach", "-q", worktree, "HEAD"], check=True)
    print(f"{len(plan)} mutants planned over {len(files)} files; results in {args.out}", flush=True)
    try:
        for path, props, (lineno, col, end_col, replacement, operator) in plan:
            if (path, lineno, col, operator) in done:
                continue
            target = os.path.join(worktree, path)
            original = open(target, encoding="utf-8").read()
            lines = original.split("\n")
            before = lines[lineno - 1]
            lines[lineno - 1] = before[:col] + replacement + before[end_col:]
            record = {"file": path, "line": lineno, "col": col, "operator": operator, "before": before.strip(),
                      "after": lines[lineno - 1].strip(), "properties": props}  # fmt: skip
            try:
                open(target, "w", encoding="utf-8").write("\n".join(lines))
                compiled = run([sys.executable, "-m", "py_compile", target])
                if compiled.returncode != 0:
                    record["fate"] = "does-not-compile"
                    continue
                env = dict(os.environ, PYTHONPATH=os.path.join(worktree, "src"))
                start = time.time()
                tests = run(["/venv/bin/python", "-m", "pytest", "-q", "-x", "-p", "no:cacheprovider", "--timeout=300"], cwd=worktree, env=env)
                summary = (tests.stdout.strip().splitlines() or ["?"])[-1]
                record["suite"] = summary[:80]
                record["suite_s"] = round(time.time() - start, 1)
                if tests.returncode != 0:
                    record["fate"] = "killed-by-suite"
                    continue
                record["fate"] = "survived-all"
                record["checks"] = {}
                check_env = dict(os.environ, VERIF_SELFTEST="1", VERIF_SUT_SRC=os.path.join(worktree, "src"), VERIF_SEED="1",
                                 VERIF_HARD_LIMIT_S="420")
                for prop in props:
                    start = time.time()
                    res = run([os.path.join(ROOT, "check"), prop, "--tier", "quick"], cwd=ROOT, env=check_env)
                    violation = [l for l in res.stdout.splitlines() if l.startswith("  clause=")]
                    record["checks"][prop] = {"exit": res.returncode, "s": round(time.time() - start, 1),
                                              "clause": (violation[0].strip()[:200] if violation else "")}  # fmt: skip
                    if res.returncode == 1:
                        record["fate"] = "caught"
                        record["caught_by"] = prop
                        break
                    if res.returncode == 2 and "KILLED after the hard limit" in res.stdout:
                        record["fate"] = "hangs"  # the mutant does not terminate: the check reports a harness error (exit 2)
                        break
                    if res.returncode == 2:
                        record["fate"] = "harness-error"
                        record["harness_output"] = res.stdout[-600:]
                        break
            finally:
                open(target, "w", encoding="utf-8").write(original)
                with open(args.out, "a", encoding="utf-8") as handle:
                    handle.write(json.dumps(record, ensure_ascii=False) + "\n")
                print(f"{record.get('fate', '?'):17s} {path}:{lineno} {operator}: {record['before'][:70]!r} -> {record['after'][:70]!r} "
                      f"{record.get('caught_by', '')}", flush=True)  # fmt: skip
    finally:
        subprocess.run(["git", "-C", "/repo", "worktree", "remove", "--force", worktree], check=False)
    fates = {}
    for line in open(args.out, encoding="utf-8"):
        fate = json.loads(line).get("fate", "?")
        fates[fate] = fates.get(fate, 0) + 1
    print("summary:", json.dumps(fates, sort_keys=True))
    return 0


if __name__ == "__main__":
    sys.exit(main())
