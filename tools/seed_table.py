#!/usr/bin/env python3
"""prints the markdown table of seeded changes (DESIGN.md 9.5) from seeded/*/meta.json"""
import glob
import json
import os

ROOT = os.path.dirname(os.path.dirname(os.path.abspath(__file__)))
print("| seeded change | what was changed (sub-agent's summary) | needs to manifest | suite | caught by (quick tier, clause) | note |")
print("|---|---|---|---|---|---|")
for path in sorted(glob.glob(os.path.join(ROOT, "seeded", "*", "meta.json"))):
    name = os.path.basename(os.path.dirname(path))
    meta = json.load(open(path, encoding="utf-8"))
    det = []
    for key, value in sorted(meta.get("detection", {}).items()):
        check = key.split(":")[0]
        if value.get("caught"):
            clause = value.get("first_violation", "")
            clause = clause.split("clause=")[1].split(" ")[0] if "clause=" in clause else ""
            det.append(f"{check} ({clause}, {value.get('wall_s')} s)")
        else:
            det.append(f"{check}: not caught")
    suite = meta.get("confirmed", {}).get("test_suite_with_change", "").split(",")[0]
    note = "strengthened after a first miss" if "history" in meta else ""
    summary = meta.get("summary", "").replace("|", "/").replace("\n", " ")[:260]
    needs = meta.get("needs", "").replace("|", "/").replace("\n", " ")[:200]
    print(f"| {name} | {summary} | {needs} | {suite} | {'; '.join(det)} | {note} |")
