#!/bin/sh
# collect a sub-agent's seeded change from its scratch worktree into /verif/seeded/<name>/
# usage: tools/collect_seed.sh <worktree> <name>
WT="$1"; NAME="$2"
DEST=/verif/seeded/$NAME
mkdir -p "$DEST"
git -C "$WT" diff -- src > "$DEST/patch.diff"
cp "$WT/demo.py" "$DEST/demo.py"
cp "$WT/meta.json" "$DEST/meta.json" 2>/dev/null || echo '{}' > "$DEST/meta.json"
/venv/bin/python - "$DEST/meta.json" "$(git -C "$WT" rev-parse HEAD)" <<'PY'
import json, sys
meta = json.load(open(sys.argv[1], encoding="utf-8"))
meta["base"] = sys.argv[2]
json.dump(meta, open(sys.argv[1], "w", encoding="utf-8"), ensure_ascii=False, indent=1)
PY
echo "collected $(grep -c '^diff' "$DEST/patch.diff") file diff(s):"; grep '^diff' "$DEST/patch.diff"
