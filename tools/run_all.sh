#!/bin/sh
# runs every registered check of the given tier (default quick) on /repo and validates the evidence files
# VERIF_ONLY="C01 C02" restricts the run to these checks (the evidence files of the others are validated as they are)
TIER="${1:-quick}"
HERE="$(cd "$(dirname "$0")/.." && pwd)"
cd "$HERE" || exit 2
sh ./setup.sh >/dev/null || exit 2
status=0
# the oracles first: the reference models must reproduce the literals of the repository's own unit tests
/venv/bin/python tools/oracle_selfcheck.py | tail -1 || status=1
for id in ${VERIF_ONLY:-$(python3 -c "import json; print(' '.join(c['property_id'] for c in json.load(open('MANIFEST.json'))['checks']))")}; do
    ./check "$id" --tier "$TIER" || { echo "FAILED $id"; status=1; }
done
python3-vt - <<'PY' || status=1
import json, jsonschema, sys, os
schema = json.load(open('/root/.vp/EVIDENCE.schema.json'))
manifest = json.load(open('MANIFEST.json'))
jsonschema.validate(manifest, json.load(open('/root/.vp/MANIFEST.schema.json')))
bad = 0
for c in manifest['checks']:
    path = os.path.join('evidence', os.path.basename(c['evidence_file']))
    try:
        jsonschema.validate(json.load(open(path)), schema)
    except Exception as exc:
        bad += 1
        print('INVALID EVIDENCE', path, str(exc)[:200])
print('evidence files valid' if not bad else f'{bad} invalid evidence files')
sys.exit(1 if bad else 0)
PY
exit $status
