#!/usr/bin/env python3
"""
Coverage-guided stage of C02 (thorough tier): atheris/libFuzzer drives the *same* Hypothesis strategy and the *same*
oracle as the `strings` stage through `test.hypothesis.fuzz_one_input`, with ahbicht (and lark's Earley front end)
instrumented for coverage feedback.

  PYTHONPATH=/verif/.deps:/verif python fuzz/c02_target.py <stats.json> <failure.json> [libFuzzer args ...]

Parse caches are cleared at the top of every iteration.  On a violation the structured case is written to
<failure.json> before the exception escapes (libFuzzer then stops and keeps the crashing bytes).  Statistics
(executions, distinct non-trivial strings, label counts) are flushed to <stats.json> every 100 executions (atheris
leaves the process without running exit handlers, so the last < 100 executions are not counted: a lower bound).
"""
import json
import os
import sys

HERE = os.path.dirname(os.path.abspath(__file__))
sys.path.insert(0, os.path.dirname(HERE))

import atheris  # noqa: E402

stats_path, failure_path = sys.argv[1], sys.argv[2]
argv = [sys.argv[0]] + sys.argv[3:]

with atheris.instrument_imports(include=["ahbicht", "lark.parsers", "lark.lexer"]):
    from vlib import sut  # noqa: E402,F401  (imports ahbicht from /repo/src)
    import lark  # noqa: E402,F401

from hypothesis import HealthCheck, given, settings  # noqa: E402

from vlib.core import Violation, sha  # noqa: E402
from vlib.props import c02  # noqa: E402

STATS = {"executions": 0, "labels": {}, "nontrivial": set(), "samples": []}


def flush():
    out = dict(STATS)
    out["nontrivial"] = len(STATS["nontrivial"])
    with open(stats_path + ".tmp", "w", encoding="utf-8") as handle:
        json.dump(out, handle, ensure_ascii=False)
    os.replace(stats_path + ".tmp", stats_path)


@settings(database=None, deadline=None, suppress_health_check=list(HealthCheck), max_examples=10**9)
@given(c02.strategy(os.environ.get("VERIF_FUZZ_TIER", "thorough")))
def test(case):
    sut.clear_parse_caches()
    try:
        info = c02.check(case)
    except Violation as violation:
        with open(failure_path, "w", encoding="utf-8") as handle:
            json.dump({"case": case, "clause": violation.clause, "message": violation.message}, handle, ensure_ascii=False)
        flush()
        raise
    STATS["executions"] += 1
    labels, nontrivial = c02.classify(case, info)
    for label in labels:
        STATS["labels"][label] = STATS["labels"].get(label, 0) + 1
    if nontrivial:
        key = sha(case["s"])[:16]
        if key not in STATS["nontrivial"]:
            STATS["nontrivial"].add(key)
            if len(STATS["samples"]) < 3:
                STATS["samples"].append(case["s"])
    if STATS["executions"] % 100 == 0:
        flush()


def one_input(data):
    test.hypothesis.fuzz_one_input(data)


if __name__ == "__main__":
    atheris.Setup(argv, one_input)
    try:
        atheris.Fuzz()
    finally:
        flush()
