#!/bin/sh
# Run once after a fresh restore, offline.  ahbicht is pure Python and imported from /repo/src by every check,
# so there is nothing to build; this only makes sure the test libraries are importable.
PY="${VERIF_PYTHON:-/venv/bin/python}"
HERE="$(cd "$(dirname "$0")" && pwd)"
export PIP_NO_INDEX=1
"$PY" -c "import hypothesis" 2>/dev/null || "$PY" -m pip install --quiet --no-index --find-links /opt/veriftools/wheels hypothesis || exit 1
# optional: atheris for the coverage-guided stage of C02 (its absence only skips that stage)
mkdir -p "$HERE/.deps"
PYTHONPATH="$HERE/.deps" "$PY" -c "import atheris" 2>/dev/null || \
  "$PY" -m pip install --quiet --no-index --find-links /opt/veriftools/wheels --target "$HERE/.deps" atheris >/dev/null 2>&1 || \
  echo "note: atheris not installed; the optional fuzz stage of C02 will be skipped"
"$PY" -c "import hypothesis, sys; sys.path.insert(0, '/repo/src'); import ahbicht.content_evaluation, ahbicht; print('setup ok: hypothesis', hypothesis.__version__, 'ahbicht from', ahbicht.__file__)"
